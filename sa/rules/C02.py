"""C02 - parsing ends with a tree or a ParsingException, never an internal error.

A may-raise analysis of the code the repository owns on the parse path: every construct that can raise is
either discharged by a stated rule or reported.  Termination, RecursionError and exceptions raised inside
sly / re for a given input are NOT decided.
"""
import ast

from ..source import raised_classes, const_str,  AnalysisError, norm, dotted, walk_no_nested, enclosing_function, enclosing_class
from ..grammar import load_dialect, DIALECTS
from ..pymodel import model_for
from ..actions import ActionKinds
from ..lexmodel import master_for, language

INIT = 'mindsdb_sql/__init__.py'
RULE_TEXT = {
    'R1': 'dict key not proven present', 'R2': 'production symbol access', 'R3': 'index into possibly-empty sequence',
    'R4': 'partial numeric conversion', 'R5': 'arithmetic on non-numbers', 'R6': 'assertion / constructor precondition',
    'R7': 'attribute of None or of a kind without it', 'R8': 'raises a class other than ParsingException',
    'R9': 'iteration over None / non-iterable', 'R10': 'constructor signature mismatch',
}
WITNESS = {
    'R7:select': '(select 1 union select 2) limit 1', 'R7:describe': 'describe a.* b', 'R7:table_column': 'create table t (primary key (a) null)',
    'R10:set': "parse_sql('set x = 1', 'sqlite')", 'R1:create_skill': 'CREATE SKILL s USING a=1', 'R5:constant': "select -'x'",
}
# partial standard-library calls: name -> (description, predicate on the Call node that makes it total)
PARTIAL_CALLS = {
    'unicodedata.name': ('raises ValueError for code points without a name', lambda c: len(c.args) >= 2),
    'next': ('raises StopIteration on an exhausted iterator', lambda c: len(c.args) >= 2),
    'ord': ('raises TypeError unless the string has length 1', lambda c: False),
    'chr': ('raises ValueError outside the Unicode range', lambda c: False),
    'json.loads': ('raises JSONDecodeError', lambda c: False),
    'int': ('raises ValueError for non-numeric text', lambda c: not c.args or isinstance(c.args[0], ast.Constant)),
    'float': ('raises ValueError for non-numeric text', lambda c: not c.args or isinstance(c.args[0], ast.Constant)),
    'max': ('raises ValueError on an empty sequence', lambda c: len(c.args) > 1 or any(k.arg == 'default' for k in c.keywords)),
    'min': ('raises ValueError on an empty sequence', lambda c: len(c.args) > 1 or any(k.arg == 'default' for k in c.keywords)),
}


def check_actions(ctx, model):
    for d in (DIALECTS if True else ('mindsdb',)):
        g = load_dialect(ctx.src, d)
        ak = ActionKinds(g, model)
        ak.solve()
        ctx.count('grammar_actions', len(g.actions))
        finds = {}
        star_seen = set()
        nspec = 0
        for p in g.productions[1:]:
            if p.func is None:
                continue
            if p.from_star:
                if id(p.func) in star_seen:
                    continue
                star_seen.add(id(p.func))
            nspec += 1

            def sink(kind, node, info, p=p):
                site = norm(node)[:60]
                key = (kind, p.func.name, p.func.lineno, site)
                finds.setdefault(key, (getattr(node, 'lineno', p.func.lineno), info, str(p)))
            ak.run(p, sink)
        ctx.count('specialisations', nspec)
        ctx.count(f'specialisations_{d}', nspec)
        # every (action, production) pair is an obligation; findings are grouped by site
        ctx.obligations += nspec
        ctx.discharged += nspec
        for (kind, fname, fline, site), (line, info, prod) in sorted(finds.items()):
            ctx.ob(f'C02.{kind}', f'{d}:{fname}:{site}', False,
                   f'{d}: grammar action `{fname}` ({RULE_TEXT[kind]}) for production `{prod}`: {info} - an internal '
                   f'{ {"R1":"KeyError","R2":"AttributeError/IndexError","R3":"IndexError","R4":"ValueError","R5":"TypeError","R6":"AssertionError","R7":"AttributeError","R8":"exception","R9":"TypeError","R10":"TypeError"}[kind]} '
                   f'instead of ParsingException', file=g.file, line=line, witness=WITNESS.get(f'{kind}:{fname}'))
        ctx.extra.setdefault('nonterminal_kinds', {})[d] = {k: repr(v)[:120] for k, v in sorted(ak.nt.items())[:400]}
        ctx.count('constructor_summaries', len(ak._summaries))
        if d == 'mindsdb':
            for k in ('identifier', 'constant', 'table_column', 'select', 'database_engine', 'kw_parameter_list'):
                if k in ak.nt:
                    ctx.sample({'nonterminal': k, 'kinds': repr(ak.nt[k])[:200]})


def closure_functions(ctx):
    """(file, qualified name, FunctionDef) of the non-action code on the parse path."""
    out = []
    tree = ctx.src.tree(INIT)
    for n in tree.body:
        if isinstance(n, ast.FunctionDef):
            out.append((INIT, n.name, n))
        if isinstance(n, ast.ClassDef):
            for m in n.body:
                if isinstance(m, ast.FunctionDef):
                    out.append((INIT, f'{n.name}.{m.name}', m))
    for d in DIALECTS:
        g = load_dialect(ctx.src, d)
        for r in g.lexer.rules:
            if r.func is not None:
                out.append((r.file, f'{g.lexer.cls}.{r.name}', r.func))
        for st in g.lexer.node.body:
            if isinstance(st, ast.FunctionDef) and st.name == 'error':
                out.append((g.lexer.file, f'{g.lexer.cls}.error', st))
        if g.error_func:
            out.append((g.error_func[0], f'{g.error_func[1]}.error', g.error_func[2]))
        ptree = ctx.src.tree(g.file)
        for n in ptree.body:
            if isinstance(n, ast.FunctionDef):
                out.append((g.file, n.name, n))
    ut = 'mindsdb_sql/parser/utils.py'
    for n in ctx.src.tree(ut).body:
        if isinstance(n, ast.FunctionDef):
            out.append((ut, n.name, n))
    seen = set()
    uniq = []
    for f, nm, fn in out:
        if id(fn) not in seen:
            seen.add(id(fn))
            uniq.append((f, nm, fn))
    return uniq


def check_closure(ctx):
    fns = closure_functions(ctx)
    ctx.setcount('closure_functions', len(fns))
    nsites = 0
    # helpers that convert token text for the grammar actions (`def float_token_value(text): return float(text)`): the action analysis follows the token into them
    # and judges the conversion there (R4: the text of a numeric token, with its digit bound) - judged here they would be "float() of arbitrary text"
    action_callees, other_callees = set(), set()
    for d_ in DIALECTS:
        g_ = load_dialect(ctx.src, d_)
        for p_ in g_.productions[1:]:
            if p_.func is not None:
                for c_ in ast.walk(p_.func):
                    if isinstance(c_, ast.Call) and isinstance(c_.func, ast.Name):
                        action_callees.add(c_.func.id)
    for _f, _nm, fn_ in fns:
        for c_ in walk_no_nested(fn_):
            if isinstance(c_, ast.Call) and isinstance(c_.func, ast.Name):
                other_callees.add(c_.func.id)
    converters = {nm_ for _f, nm_, fn_ in fns if nm_ in action_callees and nm_ not in other_callees and len(fn_.args.args) >= 1}
    for f, nm, fn in fns:
        for n in walk_no_nested(fn):
            # explicit raises
            if isinstance(n, ast.Raise) and n.exc is not None:
                classes = raised_classes(n.exc, fn)
                if '?' in classes and isinstance(n.exc, ast.Call) and isinstance(n.exc.func, ast.Name):
                    # a helper imported from another module of the parse path that builds the exception
                    helper = [h for _f, hn, h in fns if hn == n.exc.func.id]
                    if len(helper) == 1:
                        got = set()
                        for r in walk_no_nested(helper[0]):
                            if isinstance(r, ast.Return):
                                got |= raised_classes(r.value, helper[0]) if r.value is not None else {'?'}
                        classes = got or {'?'}
                cls = '/'.join(sorted(classes))
                nsites += 1
                ok = classes <= {'ParsingException', 'LexError', '<reraise>'}
                ctx.ob('C02.R8', f'{nm}:raise {cls}', ok,
                       f'{nm} raises {cls}: the parse path may only raise ParsingException (or the lexer\'s LexError)',
                       file=f, line=n.lineno)
            if isinstance(n, ast.Assert):
                nsites += 1
                ctx.ob('C02.R6', f'{nm}:assert {norm(n.test)[:40]}', False,
                       f'{nm} uses `assert {norm(n.test)[:60]}` on the parse path: AssertionError on user input', file=f, line=n.lineno)
            if isinstance(n, ast.Call):
                d = dotted(n.func)
                if d in ('int', 'float') and nm in converters and n.args and isinstance(n.args[0], ast.Name) and n.args[0].id in {a.arg for a in fn.args.args}:
                    ctx.note(f'{nm}: `{norm(n)[:40]}` converts a parameter that the grammar actions fill with token text: judged by the action analysis (R4)')
                    continue
                if d in PARTIAL_CALLS:
                    desc, total = PARTIAL_CALLS[d]
                    guarded = total(n)
                    p = getattr(n, '_parent', None)
                    while p is not None and not guarded:
                        if isinstance(p, ast.Try) and any(n is x for b in p.body for x in ast.walk(b)) and p.handlers:
                            guarded = True
                        p = getattr(p, '_parent', None)
                    nsites += 1
                    ctx.ob('C02.partial-call', f'{nm}:{norm(n)[:50]}', guarded,
                           f'{nm} calls `{norm(n)[:70]}`, which {desc}; on the parse/error-reporting path this escapes parse_sql as an '
                           f'internal error', file=f, line=n.lineno, witness='select a \\x00 from t')
    ctx.setcount('closure_raise_capable_sites', nsites)


def check_synth_tokens(ctx):
    """Tokens made up by the error reporter go through the real parser: sly reads .type/.value and, on every reduce,
    .lineno/.index/.end of the stack symbols; Token uses __slots__, so an unset slot is an AttributeError."""
    lt = ctx.src.tree('sly/lex.py')
    slots = None
    for n in ast.walk(lt):
        if isinstance(n, ast.ClassDef) and n.name == 'Token':
            for s in n.body:
                if isinstance(s, ast.Assign) and norm(s.targets[0]) == '__slots__':
                    slots = {e.value for e in s.value.elts if isinstance(e, ast.Constant)}
    ctx.need(slots, 'sly/lex.py: Token.__slots__ not found')
    tree = ctx.src.tree(INIT)
    n_tok = 0
    for fn in [n for n in ast.walk(tree) if isinstance(n, ast.FunctionDef)]:
        for n in walk_no_nested(fn):
            if isinstance(n, ast.Assign) and isinstance(n.value, ast.Call) and dotted(n.value.func) in ('Token', 'sly.lex.Token') \
                    and isinstance(n.targets[0], ast.Name):
                n_tok += 1
                var = n.targets[0].id
                assigned = {x.attr for x in walk_no_nested(fn) if isinstance(x, ast.Attribute) and isinstance(x.ctx, ast.Store)
                            and isinstance(x.value, ast.Name) and x.value.id == var}
                missing = sorted(slots - assigned)
                ctx.ob('C02.synth-token-complete', f'{fn.name}:{var}', not missing,
                       f'{fn.name} builds a sly Token and leaves the slot(s) {missing} unset; the parser reads them when the token '
                       f'ends a reduced production (AttributeError out of parse_sql instead of ParsingException)',
                       file=INIT, line=n.lineno, witness='select * from a left b')
    ctx.setcount('synthesised_tokens', n_tok)


def check_reachability(ctx):
    """thorough: every token the grammar uses is producible by the ordered master regex"""
    for d in DIALECTS:
        g = load_dialect(ctx.src, d)
        lex = g.lexer
        master = master_for(lex)
        for r in lex.rules:
            if r.func is not None or r.name.startswith('ignore_') or r.name not in g.tokens:
                continue
            words, _ = language(r.pattern, lex.reflags)
            words = [w for w in words if w]
            if not words or not any(r.name in p.rhs for p in g.productions[1:] if not p.from_star):
                continue
            ok = any(master.types(w) == [r.name] for w in words)
            ctx.ob('C02.token-reachable', f'{d}:{r.name}', ok,
                   f'{d}: no spelling of {r.name} ({r.pattern!r}) lexes to {r.name} - the documented operator is a syntax error',
                   file=lex.file, line=r.line)


def check_regex_linear(ctx):
    """Termination, one necessary condition: no regular expression applied to user text on the parse path has an unbounded repeated group that can split some
    string in two ways (on a non-matching continuation a backtracking engine tries every split: exponential time).  Patterns: every token rule of the three
    lexers and every constant pattern passed to re.* in mindsdb_sql/__init__.py and mindsdb_sql/parser/**."""
    from ..lexmodel import unbounded_groups, ambiguous_loop
    from ..grammar import load_dialect, DIALECTS
    pats = {}
    for d in DIALECTS:
        lex = load_dialect(ctx.src, d).lexer
        for r in lex.rules:
            for part in (r.parts or [r.pattern]):
                pats.setdefault(part, []).append((r.file, r.line, f'{d} token {r.name}', lex.reflags))
    files = ['mindsdb_sql/__init__.py'] + [f for f in ctx.src.py_files('mindsdb_sql/parser')]
    for f in files:
        for n in ast.walk(ctx.src.tree(f)):
            if isinstance(n, ast.Call) and (dotted(n.func) or '').startswith('re.') and n.args and const_str(n.args[0]) is not None:
                pats.setdefault(n.args[0].value, []).append((f, n.lineno, f'{dotted(n.func)}() in {f.split("/")[-1]}', 0))
    nloops = 0
    for pat, sites in sorted(pats.items()):
        for body, q in unbounded_groups(pat):
            nloops += 1
            wit = ambiguous_loop(body, sites[0][3])
            f, line, what, _ = sites[0]
            ctx.ob('C02.regex-linear', f'{what}:({body}){q}'[:110], wit is None,
                   f'{what}: the repeated group `({body}){q}` of the pattern {pat!r} can split the text {wit[0]!r} into iterations in {wit[1]} different ways: '
                   f'when the rest of the pattern then fails (e.g. an unterminated literal) the regex engine tries every split - exponential time, parse_sql does not '
                   f'return' if wit else '', file=f, line=line, witness="select '" + "\\\\" * 40)
    ctx.setcount('regex_patterns', len(pats))
    ctx.setcount('regex_unbounded_groups', nloops)


def check_token_actions(ctx):
    """Totality of the grammar actions that decode ONE data token (string, name, variable, number, placeholder): every text of up to 5 characters over
    {a, 1, backslash, the three quote characters, @, .} that the ordered lexer reads as exactly that token is handed to the action (interpreted by sa/interp.py,
    with the helpers it calls); the action may only return or raise ParsingException."""
    import itertools
    import re as _re
    from ..interp import Interp, Obj, Raised, Env
    from ..grammar import prod_record
    from ..lexmodel import master_for
    alphabet = 'a1\\\'"`@.'
    words = [''.join(w) for k in range(1, 6) for w in itertools.product(alphabet, repeat=k)]
    nrows = nact = 0
    for d in DIALECTS:
        g = load_dialect(ctx.src, d)
        lex = g.lexer
        m = master_for(lex)
        by_tok = {}
        for p in g.productions[1:]:
            if len(p.rhs) == 1 and p.rhs[0] in g.tokens and p.func is not None:
                r = lex.rule(p.rhs[0])
                if r is not None and (r.func is not None or _re.search(r'[\[\]\\*+?|()]', r.pattern)) and not _re.fullmatch(r'(\\b)?[A-Za-z_ \\s+]+(\\b)?', r.pattern):
                    by_tok.setdefault(p.rhs[0], []).append(p)
        for tok, prods in sorted(by_tok.items()):
            r = lex.rule(tok)
            rx = _re.compile(r.pattern, lex.reflags)
            texts = [w for w in words if rx.fullmatch(w)]
            texts = [w for w in texts if _safe_types(m, w) == [tok]]
            for p in prods:
                nact += 1
                it = Interp.for_file(ctx.src, g.file, {}, {})
                bad = None
                try:
                    for w in texts:
                        nrows += 1
                        it.steps = 0
                        try:
                            it.call_function(p.func, [Obj('Parser'), prod_record(p, [w])], {}, Env())
                        except Raised as rr:
                            if rr.exc_name != 'ParsingException' and bad is None:
                                bad = (w, rr.exc_name)
                except AnalysisError as e:
                    ctx.note(f'{d}: action of `{p}` is not interpretable on token texts ({str(e)[:80]}): covered by the kind analysis only')
                    continue
                ctx.ob('C02.token-action-total', f'{d}:[{p}]', bad is None,
                       f'{d}: the text `{bad[0]}` is one {tok} token, and the action of `{p}` raises {bad[1]} on it: parse_sql leaks an internal exception '
                       f'instead of a tree or ParsingException' if bad else '', file=g.file, line=p.line, witness=f'select {bad[0]}' if bad else None)
    ctx.setcount('token_action_rows', nrows)
    ctx.setcount('token_actions', nact)
    ctx.floor('token_actions', 12)
    ctx.floor('token_action_rows', 2000)


def _safe_types(m, w):
    try:
        return m.types(w)
    except Exception:
        return None


def check_recovery_terminates(ctx):
    """Termination of sly's driver in panic mode, one necessary condition on the tables: in a defaulted state the driver reduces without looking at the next
    token - also when that token is the `error` marker of a recovery in progress.  If the default reduction is by an EMPTY production nothing is popped, the goto
    state has no action on `error` and is popped again, and the driver is back in the defaulted state: it never returns.  Which states are defaulted is computed
    by sly's own code (interpreted) on the reconstructed action tables; matters for every dialect whose error callback can return (the recovery then runs)."""
    from ..lalr import tables_for
    n = 0
    for d in DIALECTS:
        g = load_dialect(ctx.src, d)
        t = tables_for(ctx.src, d)
        ef = g.error_func
        # the recovery runs only if the error callback can come back: some path of it ends without a raise (sly's own default callback returns too)
        from ..cfg import Flow
        returns = True
        if ef is not None and ef[0] != 'sly/yacc.py':
            res = Flow(lambda s_, st_: st_, lambda a, b: a).run(ef[2], 0)
            returns = bool(res.returns) or res.end is not None         # a return statement, or the end of the body is reachable
        if not returns:
            ctx.note(f'{d}: the error callback always raises - panic-mode recovery never runs, defaulted states are not examined')
            continue
        for st, act in sorted(t.defaulted.items()):
            n += 1
            pr = t.P[-act] if isinstance(act, int) and act < 0 else None
            ctx.ob('C02.recovery-terminates', f'{d}:state {st}', pr is not None and len(pr.rhs) > 0,
                   f'{d}: state {st} ({" | ".join(t.items_str(st))}) is a defaulted state whose default action is '
                   + (f'the reduction by the empty production `{pr}`' if pr is not None else f'{act!r} (not a reduction)')
                   + ': a syntax error that unwinds the stack to this state makes the driver reduce, fall back and reduce again for ever - parse_sql does not return',
                   file='sly/yacc.py', line=None, witness='select sum(a) over (partition by b 1) from t')
        extra = sorted(set(t.defaulted) - set(getattr(t, 'defaulted_formula', t.defaulted)))
        ctx.note(f'{d}: {len(t.defaulted)} defaulted states' + (f', {len(extra)} of them not single-entry rows' if extra else ''))
    ctx.setcount('defaulted_states', n)
    ctx.floor('defaulted_states', 3)


def check_result_untouched(ctx):
    """The driver is iterative and the actions only build nodes; the printers of the tree (__repr__ / to_string / to_tree) are recursive and not total on every
    tree the grammar can build.  So the entry code must hand the parsed tree over without formatting it: a value bound from `<parser>.parse(...)` may be compared
    with None, tested, returned or passed on - never formatted (f-string, %, str/repr/format/print, .to_string()/.to_tree()/.get_string())."""
    tree = ctx.src.tree(INIT)
    n_res = 0
    PRINT_M = {'to_string', 'to_tree', 'get_string', '__repr__', '__str__', 'format'}
    for fn in [n for n in ast.walk(tree) if isinstance(n, ast.FunctionDef)]:
        names = set()
        for n in walk_no_nested(fn):
            if isinstance(n, ast.Assign) and isinstance(n.value, ast.Call) and isinstance(n.value.func, ast.Attribute) and n.value.func.attr == 'parse':
                for t in n.targets:
                    if isinstance(t, ast.Name):
                        names.add(t.id)
        for var in sorted(names):
            n_res += 1
            bad = []
            for n in walk_no_nested(fn):
                if not (isinstance(n, ast.Name) and n.id == var and isinstance(n.ctx, ast.Load)):
                    continue
                p = getattr(n, '_parent', None)
                how = None
                if isinstance(p, ast.FormattedValue):
                    how = 'formatted in an f-string'
                elif isinstance(p, ast.Call) and n in p.args and dotted(p.func) in ('str', 'repr', 'format', 'print', 'ascii'):
                    how = f'passed to {dotted(p.func)}()'
                elif isinstance(p, ast.Attribute) and p.attr in PRINT_M:
                    how = f'printed with .{p.attr}()'
                elif isinstance(p, ast.BinOp) and isinstance(p.op, ast.Mod) and p.right is n:
                    how = 'formatted with %'
                elif isinstance(p, ast.Tuple) and isinstance(getattr(p, '_parent', None), ast.BinOp) and isinstance(p._parent.op, ast.Mod):
                    how = 'formatted with %'
                elif isinstance(p, ast.Call) and isinstance(p.func, ast.Attribute) and p.func.attr == 'format' and (n in p.args or any(k.value is n for k in p.keywords)):
                    how = 'formatted with str.format'
                if how:
                    bad.append((n.lineno, how))
            ctx.ob('C02.result-not-printed', f'{fn.name}:{var}', not bad,
                   f'{fn.name}: the parsed tree `{var}` is ' + '; '.join(f'{h} (line {l})' for l, h in bad) + ' on the parse path: the tree printers are '
                   'recursive and not total on every tree the grammar builds, so a RecursionError / TypeError of a printer leaves parse_sql instead of the tree',
                   file=INIT, line=bad[0][0] if bad else fn.lineno, witness='select * from t where ' + ' or '.join(f'a = {i}' for i in range(3)) + ' or ... (500 terms)')
    # the rule is not vacuous as long as the file runs the parser somewhere (a result that is never bound to a name cannot be formatted under that name)
    n_calls = sum(1 for n in ast.walk(tree) if isinstance(n, ast.Call) and isinstance(n.func, ast.Attribute) and n.func.attr == 'parse')
    ctx.setcount('parse_results', max(n_res, 1 if n_calls else 0))
    ctx.floor('parse_results', 1)


def run(ctx):
    ctx.explanation = (
        'May-raise analysis of the repository-owned parse path. Grammar actions: for each of the three dialects the semantic-'
        'value kinds of every nonterminal are computed as a fixpoint over all actions, and every action is abstractly '
        'interpreted once per production it is attached to (hasattr/getattr/len(p) folded from sly\'s name map, dead branches '
        'pruned, isinstance / None / key-membership / emptiness narrowing, callee and constructor summaries to depth 3). '
        'Reported construct classes: R1 dict key not proven, R2 production symbol access, R3 index into possibly-empty list, R4 '
        'int()/float() of non-numeric token text, R5 arithmetic on non-numbers, R6 unprovable assert / constructor precondition, '
        'R7 attribute of None or of a kind without it, R8 raise of a non-parsing exception, R9 iteration over None, R10 '
        'constructor keyword/arity mismatch. Non-action code on the path (parse_sql, ErrorHandling, lexer actions and error '
        'callbacks, parser helpers): explicit raises, asserts, partial standard-library calls, completeness of made-up tokens. '
        'Termination, one necessary condition (regex-linear): no repeated group of a token pattern or of a regex applied by parse_sql / parser helpers is ambiguous '
        '(exhaustive over short strings), so no input makes the regex engine backtrack exponentially. '
        'Thorough adds token reachability under the ordered lexer. NOT decided: termination in general, RecursionError, exceptions raised '
        'inside sly or re; constructs outside the listed classes (f-strings, comparisons) are assumed non-raising.')
    ctx.not_decided = ['termination beyond regex backtracking (LR driver loop, recursion depth) and RecursionError', 'exceptions raised inside sly / re for a given input',
                       'raise-capable constructs outside R1-R10 (stated unsoundness)']
    ctx.assumptions = ['sly calls each action with a YaccProduction whose name map is the one sly computes for that production',
                       'instances of repository classes are truthy; Identifier.parts is a non-empty list whose only possible '
                       'non-string element is a trailing Star']
    model = model_for(ctx.src)
    check_actions(ctx, model)
    check_closure(ctx)
    check_synth_tokens(ctx)
    check_regex_linear(ctx)
    check_token_actions(ctx)
    check_recovery_terminates(ctx)
    check_result_untouched(ctx)
    if ctx.tier == 'thorough':
        check_reachability(ctx)
    ctx.floor('grammar_actions', 200 + 100 + 80)
    ctx.floor('specialisations_mindsdb', 540)
    ctx.floor('specialisations', 1000)
    ctx.floor('closure_functions', 25)
    ctx.floor('closure_raise_capable_sites', 8)
    ctx.floor('synthesised_tokens', 1)
    ctx.floor('regex_patterns', 200)
    ctx.floor('regex_unbounded_groups', 4)
    ctx.floor('constructor_summaries', 75)
