"""C01 - printing a parsed statement and re-parsing it yields the same tree.

Taken whole (round-trip equality over all accepted strings) this is a run-time equality and is NOT decided
statically.  The mechanisms the statement names - parentheses kept, identifiers quoted when needed, literals
escaped, printers showing what the tree shows - have their truth in the shape of the code; the rules below
decide exactly these.
"""
import ast
import itertools
import re

from ..source import AnalysisError, norm, dotted, const_str, walk_no_nested
from ..grammar import load_dialect, DIALECTS
from ..pymodel import model_for, FieldUse, PrinterOrder, printer_method
from ..lexmodel import master_for, language
from ..cfg import Flow
from .. import peval
from . import C04

IDENT = 'mindsdb_sql/parser/ast/select/identifier.py'
BASE = 'mindsdb_sql/parser/ast/base.py'
PAREN_INNER = {'expr', 'select', 'union', 'query'}
TO_STRING_EXEMPT = {'Object': 'a parameter value `type(k=v, ...)`; the grammar derives it only inside kw_parameter, never parenthesised or aliased'}


# ---- parentheses ---------------------------------------------------------------------------------------------

def interpret_paren_action(ctx, g, p):
    """the action of a `( x ) ...` production interpreted (sa/interp.py) on a production record whose inner symbol is a node without the parentheses mark
    -> [(kind of the inner node, ok, what came back)] or None when the action is not interpretable (the dataflow rule decides then)"""
    from ..interp import Interp, Obj, Raised, Env
    inner = p.rhs[1]
    # around an operand, parentheses regroup whatever operation is inside them: a binary one, BETWEEN, and a unary NOT / minus alike ((NOT a) = b)
    kinds = ('BinaryOperation', 'UnaryOperation', 'BetweenOperation') if inner == 'expr' else (('Select', 'Union') if inner in ('union', 'query') else ('Select',))
    out = []
    for kind in kinds:
        node = Obj(kind, parentheses=False, alias=None, targets=[Obj('Identifier', parts=['c1'], alias=None), Obj('Identifier', parts=['c2'], alias=None)])
        rec = {}
        cnt = {s_: p.rhs.count(s_) for s_ in p.rhs}
        seen = {}
        for i, s_ in enumerate(p.rhs):
            v = node if i == 1 else (['n1', 'n2'] if s_.endswith('_list') else (s_.lower() if s_.isupper() else 'name'))
            rec[i] = v
            rec[i - len(p.rhs)] = v
            if cnt[s_] > 1:
                rec[f'{s_}{seen.get(s_, 0)}'] = v
                seen[s_] = seen.get(s_, 0) + 1
            else:
                rec[s_] = v
        stubs = {'Identifier': lambda it, *a, **k: Obj('Identifier', parts=list(k.get('parts') or (a[0] if a else [])), alias=k.get('alias'))}
        it = Interp.for_file(ctx.src, g.file, {'Select': {'ASTNode'}, 'Union': {'ASTNode'}, 'BinaryOperation': {'ASTNode', 'Operation'}, 'UnaryOperation': {'ASTNode', 'Operation'},
                                               'BetweenOperation': {'ASTNode', 'Operation'}, 'Identifier': {'ASTNode'}}, stubs)
        try:
            ret = it.call_function(p.func, [Obj('Parser'), rec], {}, Env())
        except Raised as r:
            # a refusal produces no tree, so no parentheses are lost; any other exception is a crash of the parser on accepted text
            out.append((kind, r.exc_name == 'ParsingException', f'an exception {r.exc_name}'))
            continue
        except AnalysisError as e:
            ctx.note(f'{g.dialect}: action of `{p}` is not interpretable ({str(e)[:80]}): decided by the dataflow rule')
            return None
        ok = ret is node and node.attrs.get('parentheses') is True
        if isinstance(ret, Obj) and ret.kind == 'Tuple':
            ok = True           # ( a ) read as a one-element tuple: the Tuple node prints its own parentheses
        out.append((kind, ok, repr(ret)[:80] if ret is not node else f'the node with parentheses={node.attrs.get("parentheses")!r}'))
    return out


def check_setop_grouping(ctx, model):
    """`( union )` as operand of a set operation hands the inner node on without a parentheses mark, so the printer of the set operations has to re-establish the
    grouping: the classes' own printers are interpreted (sa/interp.py) on the nestings of three selects under every pair of set operations - two different trees
    may not print the same text (the grammar reads set operations left to right, so a set operation on the right-hand side was written in brackets)."""
    from ..interp import Interp, Obj, Raised, Env
    lst = model.classes.get('Union', [])
    ctx.need(len(lst) == 1, 'class Union not found')
    ci = lst[0]
    subs = [c for c in model.subclasses(model.mro(ci)[1].name)] if len(model.mro(ci)) > 1 and model.mro(ci)[1].name != 'ASTNode' else [ci]
    names = sorted({c.name for c in subs if c.name != model.mro(ci)[1].name}) or ['Union']
    base_files = tuple(dict.fromkeys(c.file for c in model.mro(ci) if c.file))
    isa = {n_: {c.name for c in model.mro(model.classes[n_][0])} for n_ in names}
    isa['Select'] = {'ASTNode'}
    n = 0

    def sel(i):
        return Obj('Select', alias=None, parentheses=False, _text=f'SELECT {i}')

    def mk(kind, left, right, unique):
        return Obj(kind, left=left, right=right, unique=unique, alias=None, parentheses=False)

    def show(node):
        it = Interp.for_file(ctx.src, ci.file, isa, {}, also=tuple(f for f in base_files if f != ci.file))
        it.methods.setdefault('Select', {})
        it.stubs['str'] = lambda it_, x: (x.attrs['_text'] if isinstance(x, Obj) and '_text' in x.attrs else it_.to_str(x))
        try:
            return it.to_str(node)
        except Raised as r:
            return f'<raises {r.exc_name}>'
    for k1, k2, u1, u2 in itertools.product(names, names, (True, False), (True, False)):
        right_nested = mk(k1, sel(1), mk(k2, sel(2), sel(3), u2), u1)
        left_nested = mk(k2, mk(k1, sel(1), sel(2), u1), sel(3), u2)
        t1, t2 = show(right_nested), show(left_nested)
        n += 1
        ctx.ob('C01.setop-grouping', f'{k1}{"" if u1 else " ALL"} / {k2}{"" if u2 else " ALL"}', isinstance(t1, str) and isinstance(t2, str) and ' '.join(t1.split()) != ' '.join(t2.split())
               and not t1.startswith('<raises'),
               f'`A {k1.upper()}{"" if u1 else " ALL"} (B {k2.upper()}{"" if u2 else " ALL"} C)` and `(A {k1.upper()}{"" if u1 else " ALL"} B) {k2.upper()}{"" if u2 else " ALL"} C` are '
               f'different trees but print the same text `{" ".join(str(t1).split())}`: the brackets around a set operation on the right-hand side are lost, the printed '
               f'statement re-parses grouped to the left', file=ci.file, line=ci.node.lineno, witness='select 1 union all (select 1 union select 1)')
    ctx.setcount('setop_grouping_rows', n)
    ctx.floor('setop_grouping_rows', 4)


def check_parens(ctx, model):
    n = 0
    for d in DIALECTS:
        g = load_dialect(ctx.src, d)
        for p in g.productions[1:]:
            if len(p.rhs) < 3 or p.rhs[0] != 'LPAREN' or p.rhs[1] not in PAREN_INNER or p.rhs[2] != 'RPAREN':
                continue
            if p.name == 'select' and p.rhs[1] in ('select', 'union') and len(p.rhs) == 3:
                # ( select ) used as a statement / operand of UNION: grouping is re-established by the contexts that need it
                ctx.note(f'{d}: `{p}` returns the inner query without marking parentheses: the printers of the contexts re-establish the grouping (C01.setop-grouping decides that for set operations) - listed')
                continue
            n += 1
            fn = p.func
            pvar = fn.args.args[1].arg
            inner = p.rhs[1]
            verdicts = interpret_paren_action(ctx, g, p)
            if verdicts is not None:
                for kind, ok, got in verdicts:
                    ctx.ob('C01.paren-kept', f'{d}:{p}' + ('' if kind in ('Select', 'BinaryOperation') else f':{kind}'), ok,
                           f'{d}: the action for `{p}` applied to a {kind} gives {got} - not that node with .parentheses = True: user-written parentheses are '
                           f'lost on printing, so the re-parsed tree groups differently', file=g.file, line=fn.lineno, witness='select (a + b) * c')
                continue

            def transfer(s, st):
                st = set(st)
                if isinstance(s, ast.Assign):
                    for t in s.targets:
                        if isinstance(t, ast.Attribute) and t.attr == 'parentheses' and isinstance(s.value, ast.Constant) and s.value.value is True:
                            st.add(norm(t.value))
                        if isinstance(t, ast.Name) and norm(s.value) in (f'{pvar}.{inner}', f'{pvar}[1]'):
                            st.add(f'alias:{t.id}')
                return frozenset(st)
            res = Flow(transfer, lambda a, b: a & b).run(fn, frozenset())
            for r, st in res.returns:
                v = norm(r.value) if r.value is not None else 'None'
                names = {v, f'{pvar}.{inner}', f'{pvar}[1]'} | {x[6:] for x in st if x.startswith('alias:')}
                marked = any(x in st for x in names)
                tuple_node = isinstance(r.value, ast.Name) and any(
                    isinstance(a, ast.Assign) and norm(a.targets[0]) == r.value.id and isinstance(a.value, ast.Call) and dotted(a.value.func) == 'Tuple'
                    for a in ast.walk(fn))
                # `if isinstance(p.expr, ASTNode): p.expr.parentheses = True` - the guard is accepted (non-nodes cannot be printed anyway)
                guarded = any(isinstance(x, ast.If) and 'isinstance' in norm(x.test) and any(
                    isinstance(a, ast.Assign) and any(isinstance(t, ast.Attribute) and t.attr == 'parentheses' for t in a.targets)
                    for a in ast.walk(x)) for x in fn.body)
                ctx.ob('C01.paren-kept', f'{d}:{p}', marked or tuple_node or guarded,
                       f'{d}: the action for `{p}` returns `{v}` without setting .parentheses = True on it: user-written parentheses are '
                       f'lost on printing, so the re-parsed tree groups differently', file=g.file, line=r.lineno,
                       witness='select (a + b) * c')
    ctx.setcount('paren_productions', n)
    base = model.get('ASTNode')
    ts = base.methods.get('to_string')
    ctx.need(ts is not None, 'ASTNode.to_string not found')
    # interpreted on a stand-in whose three parts are recognisable
    from ..interp import Interp as _I, Obj as _O, Raised as _R, Env as _E
    outs = {}
    for al in (True, False):
        node = _O('Node', get_string=lambda *a, **k: 'X', maybe_add_parentheses=lambda s_: f'P[{s_}]', maybe_add_alias=lambda s_, alias=True: f'A{alias}[{s_}]',
                  alias=None, parentheses=False)
        try:
            outs[al] = _I().call_function(ts, [node], {'alias': al}, _E())
        except _R as r:
            outs[al] = f'<{r.exc_name}>'
    ok = outs == {True: 'ATrue[P[X]]', False: 'AFalse[P[X]]'}
    ctx.ob('C01.paren-kept', 'ASTNode.to_string', ok,
           f'ASTNode.to_string composes {outs}: it must be maybe_add_alias(maybe_add_parentheses(get_string()), alias=alias)', file=BASE, line=ts.lineno)
    # the two wrappers of the base printer, interpreted on probe texts: parentheses <=> exactly one pair around the text
    from ..interp import Interp, Obj, Raised, Env
    mp = base.methods.get('maybe_add_parentheses')
    ma = base.methods.get('maybe_add_alias')
    ctx.need(mp is not None and ma is not None, 'ASTNode.maybe_add_parentheses / maybe_add_alias not found')
    for flag in (True, False):
        for text in ('a', 'a + b', '(a = 1) OR (b = 2)', '(a)', '(a, b)', '', '(SELECT 1)', '(a) - (b)'):
            try:
                got = Interp().call_function(mp, [Obj('ASTNode', parentheses=flag, alias=None), text], {}, Env())
            except Raised as r:
                got = f'<{r.exc_name}>'
            want = f'({text})' if flag else text
            ctx.ob('C01.paren-kept', f'maybe_add_parentheses:{flag}:{text}', got == want,
                   f'maybe_add_parentheses with parentheses={flag} turns `{text}` into `{got}`, expected `{want}`: parentheses written by the user are '
                   f'printed iff the flag is set, whatever the text looks like (a text that starts with `(` and ends with `)` need not be one group)',
                   file=BASE, line=mp.lineno, witness='select ((a = 1) or (b = 2)) and c = 3')
    for with_alias, want_alias in itertools.product((True, False), (True, False)):
        al = Obj('Identifier', parts=['x'])
        stubs = {'self.alias.to_string': lambda it, alias=True: 'x' if alias is False else 'x AS ?'}
        try:
            got = Interp(stubs=stubs).call_function(ma, [Obj('ASTNode', parentheses=False, alias=al if with_alias else None), 'a + b'], {'alias': want_alias}, Env())
        except Raised as r:
            got = f'<{r.exc_name}>'
        want = 'a + b AS x' if (with_alias and want_alias) else 'a + b'
        ctx.ob('C01.paren-kept', f'maybe_add_alias:{with_alias}:{want_alias}', got == want,
               f'maybe_add_alias(alias={want_alias}) on a node {"with" if with_alias else "without"} alias gives `{got}`, expected `{want}`', file=BASE, line=ma.lineno)
    for ci in model.subclasses('ASTNode', strict=True):
        if 'to_string' in ci.methods and ci.file.startswith('mindsdb_sql/parser/'):
            if ci.name in TO_STRING_EXEMPT:
                ctx.note(f'{ci.name}.to_string overrides the base printer - exempt: {TO_STRING_EXEMPT[ci.name]}')
                continue
            fn = ci.methods['to_string']
            reads = {x.attr for x in ast.walk(fn) if isinstance(x, ast.Attribute) and isinstance(x.value, ast.Name) and x.value.id == 'self'}
            calls = {x.func.attr for x in ast.walk(fn) if isinstance(x, ast.Call) and isinstance(x.func, ast.Attribute)
                     and isinstance(x.func.value, ast.Name) and x.func.value.id == 'self'}
            ok_p = 'parentheses' in reads or 'maybe_add_parentheses' in calls
            ok_a = 'maybe_add_alias' in calls or not ('alias' in reads)
            ctx.ob('C01.to_string-override', f'{ci.name}:parentheses', ok_p,
                   f'{ci.name}.to_string overrides the base printer and ignores self.parentheses: `({ci.name.lower()} ...)` written by the '
                   f'user is printed without parentheses', file=ci.file, line=fn.lineno)
            ctx.ob('C01.to_string-override', f'{ci.name}:alias', ok_a,
                   f'{ci.name}.to_string prints the alias itself instead of maybe_add_alias(): it is emitted without AS and unquoted rules of '
                   f'the base printer', file=ci.file, line=fn.lineno, witness='select row_number() over (order by a) as rn')


# ---- reserved words ----------------------------------------------------------------------------------------------

def reserved_set(ctx):
    """static evaluation of get_reserved_words(): RESERVED_KEYWORDS literal + filtered token names"""
    tree = ctx.src.tree(IDENT)
    base = None
    fn = None
    nw = None
    for n in tree.body:
        if isinstance(n, ast.Assign) and norm(n.targets[0]) == 'RESERVED_KEYWORDS' and isinstance(n.value, ast.Set):
            base = {e.value for e in n.value.elts if isinstance(e, ast.Constant)}
        if isinstance(n, ast.FunctionDef) and n.name == 'get_reserved_words':
            fn = n
        if isinstance(n, ast.Assign) and norm(n.targets[0]) == 'no_wrap_identifier_regex' and isinstance(n.value, ast.Call):
            nw = const_str(n.value.args[0])
    ctx.need(base is not None and fn is not None and nw is not None, 'identifier.py: RESERVED_KEYWORDS / get_reserved_words / no_wrap regex not found')
    # get_reserved_words interpreted (sa/interp.py); `<LexerClass>.tokens` are the statically extracted token sets of the lexer classes it imports
    from ..interp import Interp, Raised, Env
    it = Interp.for_file(ctx.src, IDENT, {}, C04.lexer_token_stubs(ctx))
    try:
        out = it.call_function(fn, [], {}, Env())
    except Raised as r:
        raise AnalysisError(f'get_reserved_words raises {r.exc_name}')
    if not isinstance(out, (set, frozenset, list, tuple)) or not all(isinstance(x, str) for x in out):
        raise AnalysisError('get_reserved_words does not return a collection of words')
    return set(out), nw


def check_reserved(ctx):
    """every identifier-shaped word that the ordered lexer turns into a keyword the grammar does not accept as `id` must come out of the identifier printer in a
    form that lexes back to ID (the printer is interpreted, see C04.identifier_printer)"""
    from . import C04 as _C04
    enc, encfn = _C04.identifier_printer(ctx)
    nkw = 0
    cache = {}
    for d in DIALECTS:
        g = load_dialect(ctx.src, d)
        lex = g.lexer
        master = master_for(lex)
        id_alts = {p.rhs[0] for p in g.prods_of('id') if len(p.rhs) == 1}
        for r in lex.rules:
            if r.func is not None or r.name.startswith('ignore_') or r.name not in g.tokens:
                continue
            words, _ = language(r.pattern, lex.reflags)
            for w in words:
                if not w or not re.fullmatch(r'[A-Za-z_][A-Za-z_0-9]*', w):
                    continue
                nkw += 1
                toks = master.types(w)
                if toks == ['ID'] or toks == [r.name] and r.name in id_alts:
                    continue            # the word lexes as an identifier (or the grammar accepts the keyword as id)
                if toks != [r.name]:
                    continue
                if w.lower() not in cache:
                    cache[w.lower()] = enc([w.lower()])
                text = cache[w.lower()]
                ctx.ob('C01.reserved-words', f'{d}:{r.name}:{w.lower()}', master.types(text) == ['ID'],
                       f'{d}: the word `{w.lower()}` lexes as keyword {r.name} (not accepted as an identifier), but Identifier.parts_to_str prints an identifier of '
                       f'that name as `{text}`, which lexes to {master.types(text)}: the printed text no longer parses to the same tree', file=IDENT,
                       witness=f'select `{w.lower()}` from t')
    ctx.setcount('keyword_words', nkw)
    ctx.setcount('reserved_words', len(cache))


# ---- printers cover what the tree shows ------------------------------------------------------------------------------

def self_reads(model, ci, fn, seen=None, recv='self'):
    """attributes of the node read by a method: directly, through self.<helper>() calls, through getattr(self, <name>) with the name a literal or taken from a
    constant table of the class / module, and through module-level helper functions that receive the node"""
    seen = seen or set()
    out = set()
    if (id(fn), recv) in seen:
        return out
    seen.add((id(fn), recv))
    module = model.src.tree(ci.file)
    mod_fns = {n.name: n for n in module.body if isinstance(n, ast.FunctionDef)}

    def const_strings(e):
        return {x.value for x in ast.walk(e) if isinstance(x, ast.Constant) and isinstance(x.value, str)}

    def table_of(name_node):
        # self.TABLE / Class.TABLE / TABLE: a class-level or module-level constant
        nm = name_node.attr if isinstance(name_node, ast.Attribute) else (name_node.id if isinstance(name_node, ast.Name) else None)
        for scope in [c.node.body for c in model.mro(ci) if hasattr(c, 'node')] + [module.body]:
            for st in scope:
                if isinstance(st, ast.Assign) and any(isinstance(t, ast.Name) and t.id == nm for t in st.targets):
                    return st.value
        return None
    for n in ast.walk(fn):
        if isinstance(n, ast.Attribute) and isinstance(n.value, ast.Name) and n.value.id == recv and isinstance(n.ctx, ast.Load):
            c, m = model.method(ci, n.attr)
            if m is not None:
                par = getattr(n, '_parent', None)
                if isinstance(par, ast.Call) and par.func is n:
                    out |= self_reads(model, ci, m, seen)
                continue
            out.add(n.attr)
        if isinstance(n, ast.Call) and dotted(n.func) == 'getattr' and len(n.args) >= 2 and isinstance(n.args[0], ast.Name) and n.args[0].id == recv:
            a1 = n.args[1]
            if isinstance(a1, ast.Constant) and isinstance(a1.value, str):
                out.add(a1.value)
            elif isinstance(a1, ast.Name):
                # the name comes from a loop over a constant table: every string of the table that is a field
                for lp in ast.walk(fn):
                    if isinstance(lp, (ast.For, ast.comprehension)) and any(isinstance(x, ast.Name) and x.id == a1.id for x in ast.walk(lp.target)):
                        tbl = lp.iter if isinstance(lp.iter, (ast.Tuple, ast.List)) else table_of(lp.iter)
                        if tbl is not None:
                            out |= const_strings(tbl)
        if isinstance(n, ast.Call) and isinstance(n.func, ast.Name) and n.func.id in mod_fns:
            for i, a in enumerate(n.args):
                if isinstance(a, ast.Name) and a.id == recv and i < len(mod_fns[n.func.id].args.args):
                    out |= self_reads(model, ci, mod_fns[n.func.id], seen, recv=mod_fns[n.func.id].args.args[i].arg)
    return out


def check_printer_covers_tree(ctx, model):
    n = 0
    for ci in model.subclasses('ASTNode', strict=True):
        if not ci.file.startswith('mindsdb_sql/parser/'):
            continue
        tc, tt = model.method(ci, 'to_tree')
        pc, pp = printer_method(model, ci)
        if tt is None or pp is None or tc.name == 'ASTNode' or pc.name == 'ASTNode':
            continue
        n += 1
        tree_reads = self_reads(model, ci, tt)
        print_reads = self_reads(model, ci, pp)
        fields = set(model.self_fields(ci))
        settable = {p for c2 in model.mro(ci) for p, _ in (model.init_params(c2) if '__init__' in c2.methods else [])}
        own_init = ci.methods.get('__init__')
        if own_init is not None and not own_init.args.kwarg and not own_init.args.vararg:
            settable = {p for p, _ in model.init_params(ci)}
        elif own_init is not None:
            # names the class fixes itself when calling super().__init__(name=<constant>)
            fixed = {k.arg for n in ast.walk(own_init) if isinstance(n, ast.Call) and norm(n.func) == 'super().__init__'
                     for k in n.keywords if k.arg and isinstance(k.value, ast.Constant)}
            settable -= fixed
        for f in sorted((tree_reads - print_reads) & fields):
            if f in ('alias', 'parentheses'):
                continue            # printed by the base to_string wrapper
            if f not in settable:
                continue            # the class fixes this field itself (e.g. BetweenOperation.op)
            ctx.ob('C01.printer-covers-tree', f'{ci.name}.{f}', False,
                   f'{ci.name}.to_tree shows the field `{f}` but {pc.name}.{pp.name} never reads it: two statements that differ only in '
                   f'`{f}` print the same SQL, so the printed text cannot re-parse to the same tree', file=ci.file, line=pp.lineno)
        for f in sorted(tree_reads & print_reads & fields):
            ctx.ob('C01.printer-covers-tree', f'{ci.name}.{f}', True)
    ctx.setcount('printer_classes', n)


def check_independent_fields(ctx, model):
    """The printing of field F may be guarded by F itself only, unless to_tree shows F under the same extra guard."""
    n = 0
    for ci in model.subclasses('ASTNode', strict=True):
        if not ci.file.startswith('mindsdb_sql/parser/'):
            continue
        pc, pp = printer_method(model, ci)
        tc, tt = model.method(ci, 'to_tree')
        if pp is None or pc.name == 'ASTNode' or tt is None:
            continue
        fields = set(model.self_fields(ci))

        def guards(fn):
            out = {}
            for x in ast.walk(fn):
                if isinstance(x, ast.Attribute) and isinstance(x.value, ast.Name) and x.value.id == 'self' and x.attr in fields \
                        and isinstance(x.ctx, ast.Load):
                    gs = set()
                    p = getattr(x, '_parent', None)
                    child = x
                    inside_test = False
                    while p is not None and p is not fn:
                        if isinstance(p, (ast.If, ast.IfExp)):
                            in_test = any(x is y for y in ast.walk(p.test))
                            body = p.body if isinstance(p.body, list) else [p.body]
                            in_body = any(x is y for b in body for y in ast.walk(b))
                            if in_test:
                                inside_test = True
                            elif in_body and _requires_set(p.test):
                                for y in ast.walk(p.test):
                                    if isinstance(y, ast.Attribute) and isinstance(y.value, ast.Name) and y.value.id == 'self' and y.attr in fields:
                                        gs.add(y.attr)
                        p = getattr(p, '_parent', None)
                    if not inside_test:
                        out.setdefault(x.attr, []).append(gs - {x.attr})
            return out
        pg, tg = guards(pp), guards(tt)
        optional = {p for c2 in model.mro(ci) for p, d in (model.init_params(c2) if '__init__' in c2.methods else [])
                    if isinstance(d, ast.Constant) and d.value is None}
        for f, lst in sorted(pg.items()):
            extra = set.intersection(*lst) if lst else set()      # guards common to EVERY use of the field in the printer
            extra &= optional                                      # only the presence of another OPTIONAL field counts
            if not extra or f not in optional:
                continue
            extra = {gf for gf in extra if not dependency_in_grammar(ctx, model, ci, f, gf)}
            if not extra:
                ctx.ob('C01.printer-independent-fields', f'{ci.name}.{f}', True)
                continue
            tl = tg.get(f, [])
            textra = set.intersection(*tl) if tl else set()
            n += 1
            ctx.ob('C01.printer-independent-fields', f'{ci.name}.{f}', extra <= textra,
                   f'{ci.name}.{pp.name} prints `{f}` only when {sorted(extra - textra)} is set, but the grammar (and to_tree) allow `{f}` without '
                   f'it: the field is silently dropped from the printed SQL', file=ci.file, line=pp.lineno,
                   witness='select a from t order by a offset 5' if (ci.name, f) == ('Select', 'offset') else None)
    ctx.setcount('guarded_field_prints', n)


def _requires_set(test):
    """test of the form `self.G`, `self.G is not None`, `self.G and ...` (presence of G), not a negation"""
    if isinstance(test, ast.UnaryOp) and isinstance(test.op, ast.Not):
        return False
    if isinstance(test, ast.Compare) and isinstance(test.ops[0], (ast.Is, ast.Eq)) and isinstance(test.comparators[0], ast.Constant) \
            and test.comparators[0].value is None:
        return False
    return True


_dep_cache = {}


def dependency_in_grammar(ctx, model, ci, f, g_field):
    """True if no grammar action can build a `ci` node with field f set and field g_field unset: both are passed to the
    constructor in one call and, for every production of that action, f present implies g present; and no action stores f
    as an attribute afterwards."""
    key = (ci.name, f, g_field)
    if key in _dep_cache:
        return _dep_cache[key]
    from ..actions import ActionKinds
    ok = True
    found = False
    family = {c.name for c in model.subclasses(ci.name)} | {ci.name}
    for d in DIALECTS:
        g = load_dialect(ctx.src, d)
        from ..actions import kinds_for
        ak = kinds_for(ctx.src, d)
        for p in g.productions[1:]:
            if p.func is None or p.from_star:
                continue
            if not any(isinstance(n, ast.Name) and n.id in family for n in ast.walk(p.func)) and not any(
                    isinstance(n, ast.Attribute) and n.attr == f and isinstance(n.ctx, ast.Store) for n in ast.walk(p.func)):
                continue
            pvar = p.func.args.args[1].arg
            for n in ast.walk(p.func):
                if isinstance(n, ast.Call) and (dotted(n.func) or '').split('.')[-1] in family:
                    kws = {k.arg: k.value for k in n.keywords if k.arg}
                    if f in kws:
                        found = True
                        # evaluate both under this production (flow-insensitive over locals: use the action's final kinds)
                        res = {}
                        def sink(*a):
                            pass
                        vals = _kw_kinds(ak, p, pvar, n, (f, g_field))
                        fv, gv = vals.get(f), vals.get(g_field)
                        f_set = fv is None or not (fv.known and fv.kinds <= {'None'})
                        g_unset_possible = g_field not in kws or gv is None or (not gv.known) or ('None' in gv.kinds)
                        if f_set and g_unset_possible:
                            ok = False
                if isinstance(n, ast.Assign):
                    for t in n.targets:
                        if isinstance(t, ast.Attribute) and t.attr == f and not (isinstance(t.value, ast.Name) and t.value.id == 'self'):
                            base = ak.ev(t.value, {}, p, pvar, None)
                            if not base.known or base.kinds & family:
                                ok = False
    if not found:
        ok = False
    _dep_cache[key] = ok
    return ok


def _kw_kinds(ak, prod, pvar, call, names):
    """kinds of keyword arguments of a constructor call inside an action, for one production (runs the action's flow and
    captures the state at the call)"""
    out = {}
    fn = prod.func
    captured = {}
    orig_ev_call = ak.ev_call

    def spy(e, st, prod2, pvar2, sink):
        if e is call:
            for k in e.keywords:
                if k.arg in names:
                    captured[k.arg] = ak.ev(k.value, st, prod2, pvar2, None)
        return orig_ev_call(e, st, prod2, pvar2, sink)
    ak.ev_call = spy
    try:
        ak.run(prod)
    finally:
        ak.ev_call = orig_ev_call
    return captured


# ---- raw interpolation -----------------------------------------------------------------------------------------------------

def check_raw_interpolation(ctx, model):
    nsites = 0
    for ci in model.subclasses('ASTNode', strict=True):
        if not ci.file.startswith('mindsdb_sql/parser/'):
            continue
        for mname in ('get_string', 'to_string', 'render'):
            fn = ci.methods.get(mname)
            if fn is None:
                continue
            ctx.count('printer_methods_scanned')
            for n in ast.walk(fn):
                if isinstance(n, ast.JoinedStr):
                    vals = n.values
                    for i, v in enumerate(vals):
                        if not isinstance(v, ast.FormattedValue):
                            continue
                        before = vals[i - 1].value if i > 0 and isinstance(vals[i - 1], ast.Constant) else ''
                        after = vals[i + 1].value if i + 1 < len(vals) and isinstance(vals[i + 1], ast.Constant) else ''
                        if before[-1:] in ("'", '"') and after[:1] == before[-1:]:
                            nsites += 1
                            e = v.value
                            safe = isinstance(e, ast.Call) and isinstance(e.func, ast.Attribute) and e.func.attr in ('to_string', 'get_string')
                            if isinstance(e, ast.Name):
                                for a in ast.walk(fn):
                                    if isinstance(a, ast.Assign) and norm(a.targets[0]) == e.id:
                                        from ..codec import chain_steps
                                        root, steps = chain_steps(a.value)
                                        if any(st[0] == 'replace' and st[1] == before[-1] for st in steps):
                                            safe = True         # the value was escaped for this delimiter first
                            ctx.ob('C01.raw-interpolation', f'{ci.name}.{mname}:{norm(e)[:40]}', safe,
                                   f'{ci.name}.{mname} places `{norm(e)}` between literal {before[-1]} characters without escaping: a value '
                                   f'containing that quote (or a backslash) prints text that does not re-parse to the same tree',
                                   file=ci.file, line=n.lineno)
                if isinstance(n, ast.Call) and dotted(n.func) == 'repr' and n.args:
                    nsites += 1
                    ctx.ob('C01.raw-interpolation', f'{ci.name}.{mname}:repr({norm(n.args[0])[:30]})', False,
                           f'{ci.name}.{mname} uses repr() as the SQL encoder of `{norm(n.args[0])}`: repr chooses " delimiters when the value '
                           f'contains a quote and writes None/True as Python names', file=ci.file, line=n.lineno)
    ctx.setcount('interpolation_sites', nsites)


# ---- token-level constructs: the round trip in the small -------------------------------------------------------------------------------------------

SIMPLE_NT = {'string': ['abc', '1 day', '5', '1.5 hours', '-1 day', "it's", '0.5',
                        # content that is more than `<value> <one word>`: several words, quotes, brackets, comment openers - it must stay inside the literal
                        '1 day 2 hours', '1 day) union select 1 --', "1' day", '1  day', 'x y z', '1 day;'], 'quote_string': ['abc', '5'], 'dquote_string': ['abc', 'a b'],
             'id': ['abc', 'col1'], 'integer': [5, 0], 'float': [1.5, 1e-07, 1e+16, 2.5e+19]}
WRAP = {'expr': ['SELECT'], 'constant': ['SELECT'], 'identifier': ['SELECT']}


def check_token_level_roundtrip(ctx, model):
    """For every production that builds a node directly from tokens (keywords plus string / name / number values): the action is interpreted on sample values
    (real constructors of the AST classes, interpreted too), the node's printer is interpreted, the printed text is lexed with the simulated ordered lexer, and
    the token sequence is run through the reconstructed LALR tables: it must be accepted and reduced by the same action again.  Nothing is executed."""
    import glob
    import os
    from ..interp import Interp, Obj, Raised, Env
    from ..grammar import prod_record
    from ..lalr import tables_for, lr_parse
    from ..lexmodel import spelling
    ast_files = tuple(sorted(f for f in ctx.src.py_files('mindsdb_sql/parser') if '/ast/' in f))
    tok_stubs = C04.lexer_token_stubs(ctx)
    nrows = nprod = 0
    for d in DIALECTS:
        g = load_dialect(ctx.src, d)
        t = tables_for(ctx.src, d)
        m = master_for(g.lexer)
        for p in g.productions[1:]:
            if p.func is None or p.name not in WRAP:
                continue
            if not (all(s_ in g.tokens or s_ in SIMPLE_NT for s_ in p.rhs) and any(s_ in SIMPLE_NT for s_ in p.rhs)):
                continue
            if not any(isinstance(x, ast.Return) and isinstance(x.value, ast.Call) and isinstance(x.value.func, ast.Name) and x.value.func.id[:1].isupper()
                       for x in ast.walk(p.func)):
                continue
            nprod += 1
            choices = [SIMPLE_NT[s_] if s_ in SIMPLE_NT else [spelling(g.lexer, s_) or s_] for s_ in p.rhs]
            for values in itertools.product(*choices):
                it = Interp.for_file(ctx.src, g.file, {}, dict(tok_stubs), also=ast_files)
                label = f'{d}:[{p}]:{"/".join(map(str, values))}'
                try:
                    node = it.call_function(p.func, [Obj('Parser'), prod_record(p, list(values))], {}, Env())
                    if not isinstance(node, Obj):
                        continue
                    pr = it.methods.get(node.kind, {}).get('to_string')
                    if pr is None:
                        continue
                    text = it.call_function(pr, [node], {}, Env())
                except Raised as r:
                    if r.exc_name == 'ParsingException':
                        continue            # the parser refuses this value: nothing to print
                    ctx.ob('C01.token-level-roundtrip', label, False, f'{label}: building / printing the node raises {r.exc_name}', file=g.file, line=p.line)
                    continue
                except AnalysisError as e:
                    ctx.note(f'{label}: not interpretable ({str(e)[:90]})')
                    break
                nrows += 1
                types = m.types(text) if isinstance(text, str) else None
                ok, reds = (False, [])
                if types is not None:
                    ok, reds = lr_parse(t, WRAP[p.name] + list(types))
                def builds(q):
                    return t.P[q].func is p.func or (t.P[q].func is not None and any(
                        isinstance(x, ast.Call) and isinstance(x.func, ast.Name) and x.func.id == node.kind for x in ast.walk(t.P[q].func)))
                same = ok and any(builds(q) for q in reds)
                ctx.ob('C01.token-level-roundtrip', label, bool(same),
                       f'{label}: the node prints as `{text}`, which lexes to {types}; the {d} parser {"accepts it but with rules that build no " + node.kind if ok else "does not accept it"} '
                       f'(`{" ".join(WRAP[p.name])} <text>` through the LALR tables): the printed statement does not re-parse to the same tree',
                       file=g.file, line=p.line, witness=f"select {text}" if isinstance(text, str) else None)
    ctx.setcount('token_level_productions', nprod)
    ctx.setcount('token_level_rows', nrows)
    ctx.floor('token_level_productions', 10)
    ctx.floor('token_level_rows', 40)


# ---- parameter values (USING / SET ...) -------------------------------------------------------------------------------------------------------------

def check_param_values(ctx, model):
    """param_to_string writes the values of USING / SET parameters: strings, numbers, nested objects and arrays.  It is interpreted on values with every kind of
    string content; the text is lexed with the mindsdb lexer, and every string token, decoded by the grammar's own (interpreted) decoder, must give back the strings
    of the value in order: an encoder other than the constant printer's (json.dumps writes \\uXXXX and \\n) is read back as different text."""
    from ..interp import Interp, Obj, Raised, Env
    OPF = 'mindsdb_sql/parser/ast/select/operation.py'
    fn = next((n for n in ctx.src.tree(OPF).body if isinstance(n, ast.FunctionDef) and n.name == 'param_to_string'), None)
    if fn is None:
        ctx.note('param_to_string not found: parameter values are printed elsewhere')
        return
    g = load_dialect(ctx.src, 'mindsdb')
    master = master_for(g.lexer)
    decoders = {'QUOTE_STRING': C04.decoder_model(ctx, g, 'quote_string')[0], 'DQUOTE_STRING': C04.decoder_model(ctx, g, 'dquote_string')[0]}
    ast_files = tuple(sorted(f for f in ctx.src.py_files('mindsdb_sql/parser') if '/ast/' in f and f != OPF))
    strings = ['abc', 'Gr\u00fc\u00df Gott', 'line1\nline2', "it's", 'a"b', 'back\\slash', 'tab\there', '\u4e2d\u6587', '']
    values = list(strings) + [{'k': s_} for s_ in strings] + [[s_, 'x'] for s_ in strings] + [{'outer': {'inner': [s_]}} for s_ in strings[:5]] + [{s_: 1} for s_ in strings[:6]]

    def strings_of(v):
        if isinstance(v, str):
            return [v]
        if isinstance(v, dict):
            return [x for k_, w in v.items() for x in [str(k_)] + strings_of(w)]
        if isinstance(v, (list, tuple)):
            return [x for w in v for x in strings_of(w)]
        return []
    n = 0
    for v in values:
        it = Interp.for_file(ctx.src, OPF, {'ASTNode': set(), 'Constant': {'ASTNode'}}, dict(C04.lexer_token_stubs(ctx)), also=ast_files)
        try:
            text = it.call_function(fn, [v], {}, Env())
        except Raised as r:
            text = f'<raises {r.exc_name}>'
        n += 1
        got = None
        if isinstance(text, str) and not text.startswith('<raises'):
            try:
                got = [decoders[t_](x_) for t_, x_ in master.tokenize(text) if t_ in decoders]
            except ValueError:
                got = None
        ctx.ob('C01.param-values', repr(v)[:60], got == strings_of(v),
               f'the parameter value {v!r} is printed as `{text}`; its string tokens read back as {got}, the value holds {strings_of(v)}: the statement re-parses to other '
               f'parameter values', file=OPF, line=fn.lineno, witness='create agent a using model=m, prompt={"greeting": "Gr\u00fc\u00df Gott"}')
    ctx.setcount('param_value_probes', n)
    ctx.floor('param_value_probes', 30)


# ---- a clause with a falsy value is still printed -------------------------------------------------------------------------------------------------------

def numeric_fields(ctx, model):
    """{(class, field)} whose value the grammars build from a number nonterminal (int / float kinds reach the constructor keyword): such a field can be 0"""
    from ..actions import kinds_for
    from ..source import memo_on

    def build():
        out = {}
        for d in DIALECTS:
            g = load_dialect(ctx.src, d)
            ak = kinds_for(ctx.src, d)
            for p in g.productions[1:]:
                if p.func is None or p.from_star:
                    continue
                calls = [n for n in ast.walk(p.func) if isinstance(n, ast.Call) and isinstance(n.func, ast.Name) and n.func.id in model.classes and n.keywords]
                pvar = p.func.args.args[1].arg
                # attribute stores on a node a symbol of the production delivers: p.create_predictor.window = p.integer
                for st in [n for n in ast.walk(p.func) if isinstance(n, ast.Assign) and len(n.targets) == 1 and isinstance(n.targets[0], ast.Attribute)]:
                    try:
                        base = ak.ev(st.targets[0].value, {}, p, pvar, None)
                        val = ak.ev(st.value, {}, p, pvar, None)
                    except AnalysisError:
                        continue
                    if val is not None and val.kinds & {'int', 'float'} and base is not None and base.known:
                        for cn_ in base.kinds:
                            if cn_ in model.classes:
                                out.setdefault((cn_, st.targets[0].attr), f'{d}: {p}')
                if not calls:
                    continue
                for c in calls:
                    names = [k.arg for k in c.keywords if k.arg]
                    try:
                        kinds = _kw_kinds(ak, p, pvar, c, names)
                    except AnalysisError:
                        continue
                    for nm, v in kinds.items():
                        if v is not None and v.kinds & {'int', 'float'}:
                            out.setdefault((c.func.id, nm), f'{d}: {p}')
        return out
    return memo_on(ctx.src, ('numeric-fields',), build)


def check_falsy_values_printed(ctx, model):
    """A field the grammars fill from a number can be 0: a printer that decides by the truthiness of the field (`if self.window`) drops `WINDOW 0` from the text,
    and the re-parsed tree has no window.  Presence must be tested with `is not None`."""
    nf = numeric_fields(ctx, model)
    ctx.setcount('numeric_fields', len(nf))
    n = 0
    for (cn, f), where in sorted(nf.items()):
        for ci in [c for c in model.classes.get(cn, [])]:
            for owner in model.mro(ci):
                for mname in ('get_string', 'to_string'):
                    fn = owner.methods.get(mname)
                    if fn is None:
                        continue
                    for t in ast.walk(fn):
                        tests = []

                        def empty(e):
                            return isinstance(e, ast.Constant) and e.value in ('', None)
                        if isinstance(t, ast.IfExp) and (empty(t.body) or empty(t.orelse)):
                            tests = [t.test]            # `<clause> if self.f else ''`: the test decides whether the clause is printed at all
                        elif isinstance(t, ast.If) and (not t.orelse or all(isinstance(x, ast.Assign) and empty(x.value) for x in t.orelse)):
                            tests = [t.test]
                        elif isinstance(t, ast.BoolOp):
                            tests = t.values[:-1] if isinstance(getattr(t, '_parent', None), (ast.Assign, ast.Return, ast.FormattedValue, ast.Call)) else []
                        for test in tests:
                            atoms = test.values if isinstance(test, ast.BoolOp) else [test]
                            for a in atoms:
                                a0 = a.operand if isinstance(a, ast.UnaryOp) and isinstance(a.op, ast.Not) else a
                                if isinstance(a0, ast.Attribute) and isinstance(a0.value, ast.Name) and a0.value.id == 'self' and a0.attr == f:
                                    n += 1
                                    ctx.ob('C01.falsy-value-printed', f'{owner.name}.{mname}:{f}', False,
                                           f'{owner.name}.{mname} decides by the truthiness of `self.{f}` whether the clause is printed, but the grammar fills {cn}.{f} from a '
                                           f'number ({where}): the value 0 is dropped from the text and the statement re-parses without it', file=owner.file,
                                           line=a0.lineno, witness='create model m predict y window 0')
    ctx.setcount('truthiness_tests_on_numeric_fields', n)
    ctx.ob('C01.falsy-value-printed', 'all', True, '')
    ctx.floor('numeric_fields', 3)


# ---- names kept as raw token text are printed as that text --------------------------------------------------------------------------------------------

RAW_IDS = ['col1', 'a$b', '`my col`', '`a.b`', 'status', 'Model']


def _holds_raw(v, text, depth=0):
    """the text sits in the value as it is (attribute, list element, dict key or value), not decoded into an Identifier"""
    from ..interp import Obj
    if depth > 4:
        return False
    if isinstance(v, str):
        return v == text
    if isinstance(v, dict):
        return any(_holds_raw(k, text, depth + 1) or _holds_raw(x, text, depth + 1) for k, x in v.items())
    if isinstance(v, (list, tuple)):
        return any(_holds_raw(x, text, depth + 1) for x in v)
    if isinstance(v, Obj) and v.kind != 'Identifier':
        return any(_holds_raw(x, text, depth + 1) for k, x in v.attrs.items() if not k.startswith('_'))
    return False


def check_raw_text_fields(ctx, model):
    """Some grammar actions keep a name as the raw text of its `id` token (back-quotes included) - the SET columns of UPDATE, column lists ...  Where that text ends
    up is found by interpreting the actions on sample names (through up to three levels of productions); the node's printer, interpreted, must then write
    exactly that text as one token: an encoder applied to text that already is source text quotes it twice, and the statement re-parses to another name."""
    from ..interp import Interp, Obj, Raised, Env
    from ..grammar import prod_record
    from ..lexmodel import spelling
    from ..actions import kinds_for
    ast_files = tuple(sorted(f for f in ctx.src.py_files('mindsdb_sql/parser') if '/ast/' in f or ('/dialects/mindsdb/' in f and not f.endswith(('parser.py', 'lexer.py')))))
    tok_stubs = C04.lexer_token_stubs(ctx)
    nnodes = 0
    for d in DIALECTS:
        g = load_dialect(ctx.src, d)
        m = master_for(g.lexer)
        ak = kinds_for(ctx.src, d)

        def fresh():
            return Interp.for_file(ctx.src, g.file, {}, dict(tok_stubs), also=ast_files)

        def default(sym):
            if sym in g.tokens:
                return spelling(g.lexer, sym) or sym
            if sym == 'identifier':
                return Obj('Identifier', parts=['t'], alias=None, parentheses=False)
            k = ak.nt.get(sym)
            if k is not None and 'Constant' in k.kinds:
                return Obj('Constant', value=1, alias=None, parentheses=False)
            if sym in ('if_not_exists_or_empty', 'replace_or_empty', 'if_exists_or_empty'):
                return False
            return None
        for text in RAW_IDS:
            carriers = {'id': [text]}
            for level in range(3):
                new = {}
                for p_ in g.productions[1:]:
                    if p_.func is None or not any(s_ in carriers for s_ in p_.rhs) or p_.name == 'id':
                        continue
                    pos = next(i for i, s_ in enumerate(p_.rhs) if s_ in carriers)
                    for cv in carriers[p_.rhs[pos]][:2]:
                        values = [cv if i == pos else default(s_) for i, s_ in enumerate(p_.rhs)]
                        try:
                            res = fresh().call_function(p_.func, [Obj('Parser'), prod_record(p_, values)], {}, Env())
                        except (Raised, AnalysisError, TypeError, ValueError, AttributeError, KeyError, IndexError):
                            continue
                        if not _holds_raw(res, text):
                            continue
                        if isinstance(res, Obj):
                            pr = fresh().methods.get(res.kind, {}).get('to_string')
                            if pr is None:
                                continue
                            try:
                                out = fresh().call_function(pr, [res], {}, Env())
                            except (Raised, AnalysisError, TypeError, ValueError, AttributeError, KeyError, IndexError):
                                continue
                            if not isinstance(out, str):
                                continue
                            nnodes += 1
                            try:
                                words = [txt for _, txt in m.tokenize(out)]          # the token texts the dialect's own lexer sees
                            except ValueError:
                                words = []
                            ok = text in words
                            ctx.ob('C01.raw-text-kept', f'{d}:[{p_}]:{text}', ok,
                                   f'{d}: `{p_}` keeps the name {text!r} as the raw text of its token; the {res.kind} node prints `{out[:100]}`, where that text does not '
                                   f'stand as it is: the printed statement re-parses to another name (the printer encoded text that already was source text)',
                                   file=g.file, line=p_.line, witness=f'update t set {text} = 1')
                        else:
                            new.setdefault(p_.name, []).append(res)
                if not new:
                    break
                carriers = new
    ctx.setcount('raw_text_nodes', nnodes)
    ctx.floor('raw_text_nodes', 12)


# ---- stored query text is a fixpoint of print / re-parse ------------------------------------------------------------------------------------------

def check_stored_text_stable(ctx):
    """Commands that embed a raw query store the text tokens_to_string rebuilds from the tokens, print it, and on re-parse rebuild it again from the tokens of
    the printed text.  tokens_to_string is interpreted (sa/interp.py) on the tokens of layouts with line breaks, blank lines and indentation; its output is
    tokenised again (same words, positions of the new text) and rebuilt: the second text must equal the first, or the re-parsed tree differs from the printed one."""
    import re as _re
    from ..interp import Interp, Obj, Raised, Env
    UT = 'mindsdb_sql/parser/utils.py'
    tts = next((n for n in ctx.src.tree(UT).body if isinstance(n, ast.FunctionDef) and n.name == 'tokens_to_string'), None)
    ctx.need(tts is not None, 'tokens_to_string not found')

    def toks(text, base=0):
        return [Obj('Token', type='T', value=m.group(0), index=base + m.start(), end=base + m.end(), lineno=text.count('\n', 0, m.start()) + 1)
                for m in _re.finditer(r"'[^']*'|[^\s]+", text)]
    layouts = ['select a from t', 'select a\nfrom t', 'select a\n\nfrom t', 'select a\n\n\n   from t\n\n where x = 1', '  select a\n\n      , b\n\n\nfrom t',
               "select 'x\n\ny' c\n\nfrom t", 'a\n\n\n\nb']
    n = 0
    for text in layouts:
        for base in (0, 17):
            it = Interp.for_file(ctx.src, UT, {}, {})
            n += 1
            try:
                first = it.call_function(tts, [toks(text, base)], {}, Env())
                second = it.call_function(tts, [toks(first, base)], {}, Env()) if isinstance(first, str) else None
                third = it.call_function(tts, [toks(second, base)], {}, Env()) if isinstance(second, str) else None
            except Raised as r:
                first, second, third = f'<raises {r.exc_name}>', None, None
            ok = isinstance(first, str) and second == first and third == second and first.split() == text.split()
            ctx.ob('C01.stored-text-stable', f'{text!r}@{base}', ok,
                   f'the stored text of the embedded query {text!r} is {first!r}; rebuilt from its own tokens it is {second!r} (then {third!r}): the text changes on every '
                   f'print / parse round, so the re-parsed statement differs from the printed one', file=UT, line=tts.lineno,
                   witness='create view v as (select a\n\nfrom t)')
    ctx.setcount('stored_text_layouts', n)


# ---- leaves ------------------------------------------------------------------------------------------------------------------

def check_leaves(ctx, model):
    g = load_dialect(ctx.src, 'mindsdb')
    master = master_for(g.lexer)
    # Parameter <- PARAMETER
    pci = model.get('Parameter')
    gs = pci.methods.get('get_string')
    ctx.need(gs is not None, 'Parameter.get_string not found')
    spell = None
    r = g.lexer.rule('PARAMETER')
    ctx.need(r is not None, 'PARAMETER token not found')
    words, _ = language(r.pattern, g.lexer.reflags)
    from .C04 import node_printer
    ppr = node_printer(ctx, pci)
    for w in words:
        out = ppr(value=w)          # Parameter.get_string interpreted with self.value = w
        ctx.ob('C01.leaf-lexes-back', f'Parameter:{w}', master.types(out) == ['PARAMETER'],
               f'a `{w}` placeholder is printed as `{out}`, which lexes to {master.types(out)} instead of one PARAMETER token',
               file=pci.file, line=gs.lineno, witness='select ?')
    # constant leaves: the printed keyword lexes to the token whose action builds the node
    for cls, tok, text in (('Latest', 'LATEST', None), ('Star', 'STAR', None), ('NullConstant', 'NULL', None)):
        ci = model.get(cls)
        fn = ci.methods.get('get_string')
        if fn is None:
            continue
        s = node_printer(ctx, ci)()
        ctx.ob('C01.leaf-lexes-back', cls, master.types(s) == [tok],
               f'{cls} prints `{s}`, which lexes to {master.types(s)} instead of [{tok}]', file=ci.file, line=fn.lineno)
    cci = model.get('Constant')
    fn = cci.methods['get_string']
    for n in ast.walk(fn):
        if isinstance(n, ast.IfExp) and all(isinstance(x, ast.Constant) for x in (n.body, n.orelse)):
            for s, tok in ((n.body.value, 'TRUE'), (n.orelse.value, 'FALSE')):
                ctx.ob('C01.leaf-lexes-back', f'Constant:{s}', master.types(s) == [tok],
                       f'a boolean constant prints `{s}`, which lexes to {master.types(s)}', file=cci.file, line=n.lineno)


def run(ctx):
    ctx.explanation = (
        'Round-trip equality itself is not decided. Decided are the mechanisms the statement names, as structural rules: '
        '(paren-kept) every `( expr | select | union | query )` production marks the returned node on all paths, ASTNode.to_string '
        'composes alias(parentheses(get_string())), and classes overriding to_string still honour both; (reserved-words) every '
        'identifier-shaped word that the ordered lexer turns into a keyword token the grammar does not accept as id is in the '
        'statically evaluated reserved set of the identifier printer; (printer-covers-tree) every field to_tree shows is read by '
        'the SQL printer; (printer-independent-fields) a field is printed under its own guard only; (raw-interpolation) no printer '
        'places a value between quote characters or uses repr() as SQL encoder; (codec) literal escaping agrees with the lexer '
        '(shared with C04); (leaf-lexes-back) single-token leaves print text that lexes back to that token.')
    ctx.not_decided = ['round-trip equality over all accepted strings (keyword order, optional clauses, spacing of every get_string)',
                       'copy() part (C18)']
    ctx.assumptions = ['ASTNode.__eq__ = to_tree + printed text (checked under C18)']
    model = model_for(ctx.src)
    check_parens(ctx, model)
    check_setop_grouping(ctx, model)
    check_reserved(ctx)
    check_printer_covers_tree(ctx, model)
    check_independent_fields(ctx, model)
    check_raw_interpolation(ctx, model)
    check_leaves(ctx, model)
    check_token_level_roundtrip(ctx, model)
    check_raw_text_fields(ctx, model)
    check_falsy_values_printed(ctx, model)
    check_param_values(ctx, model)
    check_stored_text_stable(ctx)
    # codec (shared with C04): string literals and identifiers
    sub_findings = []
    from ..core import Ctx
    sub = Ctx('C04', ctx.src, ctx.tier)
    C04.check_strings(sub)
    C04.check_identifier_encoder(sub)
    for key in sorted(sub.constructs):
        rule, cons = key.split(':', 1)
        failed = [f for f in sub.findings if f.key == key]
        if failed:
            f = failed[0]
            ctx.ob('C01.codec', f'{rule}:{cons}', False, f.msg, file=f.file, line=f.line, witness=f.witness)
        else:
            ctx.ob('C01.codec', f'{rule}:{cons}', True)
    # numeric constants (C07's table): the printed text of a number is one numeric literal of the library's lexer that reads back as the value
    from . import C07
    sub = Ctx('C07', ctx.src, ctx.tier)
    C07.check_number_printer(sub)
    ctx.setcount('number_probes', sub.counts.get('number_probes', 0))
    ctx.ob('C01.codec', 'number-printer:all', True, '')
    for f in sub.findings:
        ctx.ob('C01.codec', f'number-printer:{f.construct}', False, f.msg, file=f.file, line=f.line, witness=f.witness)
    ctx.floor('number_probes', 20)
    ctx.floor('paren_productions', 6)
    ctx.floor('printer_classes', 60)
    ctx.floor('keyword_words', 380)
    ctx.floor('printer_methods_scanned', 65)
