"""C03 - operators group by SQL precedence and associativity in every dialect.

Decided exhaustively on the LALR(1) action tables (Engine A): for every operator production P,
every state holding the completed item [P .] and every operator token b in that item's LALR
look-ahead set, the resolved action must be the one the reference order demands.  LALR states are
shared by all contexts in which `expr` occurs, so one pass covers select list, WHERE, ON, HAVING,
function arguments and CASE branches.
"""
import ast

from ..source import AnalysisError, norm
from ..grammar import load_dialect, DIALECTS
from ..lalr import tables_for, kind, SHIFT, REDUCE, ERROR
from ..lexmodel import spelling

# reference classes, tightest first (from the property statement)
MUL = {'STAR', 'DIVIDE', 'MODULO'}
ADD = {'PLUS', 'MINUS'}
CMP = {'EQUALS', 'NEQUALS', 'LESS', 'LEQ', 'GREATER', 'GEQ', 'IN', 'NOT_IN', 'LIKE', 'NOT_LIKE', 'IS', 'IS_NOT',
       'BETWEEN'}
LEFT_ASSOC = {5, 4, 1, 0}
CLASS_NAME = {6: 'unary minus', 5: '* / %', 4: '+ -', 3: 'comparison/predicate', 2: 'NOT', 1: 'AND', 0: 'OR'}


def tok_class(t):
    if t in MUL:
        return 5
    if t in ADD:
        return 4
    if t in CMP:
        return 3
    if t == 'AND':
        return 1
    if t == 'OR':
        return 0
    return None


def prod_kind(p):
    """(kind, operator label, class) of an operator production, or None."""
    r = p.rhs
    if p.name == 'expr':
        if len(r) == 3 and r[0] == 'expr' and r[2] == 'expr' and tok_class(r[1]) is not None:
            return ('bin', r[1], tok_class(r[1]))
        if len(r) == 3 and r[0] == 'expr' and r[2] != 'expr' and tok_class(r[1]) is not None and r[1] not in ('IN', 'NOT_IN'):
            # the right operand is written as a fixed word (`a > LAST`): the same operator, complete as soon as the word is read
            return ('bin-word', r[1], tok_class(r[1]))
        if r == ('expr', 'NOT', 'expr'):
            return ('bin', 'NOT', 3)        # postfix-style predicate `a NOT NULL` (= IS NOT NULL): NOT in infix position is a predicate operator
        if r == ('expr', 'NOT', 'IN', 'expr'):
            return ('bin', 'NOT IN', 3)
        if r == ('expr', 'BETWEEN', 'expr', 'AND', 'expr'):
            return ('between', 'BETWEEN', 3)
        if r == ('MINUS', 'expr'):
            return ('un', 'MINUS', 6)
        if r == ('NOT', 'expr'):
            return ('un', 'NOT', 2)
    if p.name == 'constant' and r == ('MINUS', 'constant'):
        return ('un', 'MINUS', 6)
    return None


def infix_classes(g):
    """class of a token when it appears in infix position after a complete expr."""
    out = {}
    for p in g.productions[1:]:
        k = prod_kind(p)
        if k and k[0] in ('bin', 'bin-word', 'between') and p.rhs[0] == 'expr':
            out.setdefault(p.rhs[1], set()).add(k[2])
    return out


def expected(cp, cb):
    if cp == 3 and cb == 3:
        return None                     # comparison directly inside comparison: outside the property
    if cp > cb:
        return 'reduce'
    if cp < cb:
        return 'shift'
    if cp in LEFT_ASSOC:
        return 'reduce'
    return None


def witness(g, p, k, b, exp):
    lex = g.lexer
    sp = lambda t: spelling(lex, t) or t
    if k[0] in ('bin', 'bin-word'):
        ops = ' '.join(sp(t) for t in p.rhs[1:-1])
        left = f'a {ops} b' if k[0] == 'bin' else f'a {ops} {sp(p.rhs[-1]).lower()}'
    elif k[0] == 'between':
        left = f'a {sp("BETWEEN")} b {sp("AND")} c'
    else:
        left = f'{sp(p.rhs[0])} a'
    tail = sp(b)
    if b == 'NOT':
        tail = f'{sp("NOT")} {sp("IN")}'
    if b == 'BETWEEN':
        return f'{left} {tail} x {sp("AND")} y'
    if b in ('IN', 'NOT_IN') or tail.upper().endswith(' IN'):
        return f'{left} {tail} (x, y)'
    return f'{left} {tail} z'


def check_operator_actions(ctx, g, d):
    """the action of every operator production builds the operation it stands for: interpreted (sa/interp.py) on operand stand-ins of several kinds (a column,
    the same operator again, a constant), the result must be an operation node with the written operator and exactly the operands, by identity and in order"""
    from ..interp import Interp, Obj, Raised, Env
    from ..grammar import prod_record
    isa = {'UnaryOperation': {'Operation', 'ASTNode'}, 'BinaryOperation': {'Operation', 'ASTNode'}, 'BetweenOperation': {'Operation', 'ASTNode'},
           'Identifier': {'ASTNode'}, 'Constant': {'ASTNode'}, 'NullConstant': {'Constant', 'ASTNode'}, 'Tuple': {'ASTNode'}, 'Select': {'ASTNode'}}
    n = 0
    ast_files = tuple(sorted(f for f in ctx.src.py_files('mindsdb_sql/parser') if '/ast/' in f))
    for p in g.productions[1:]:
        k = prod_kind(p)
        if not k or p.name != 'expr' or p.func is None or k[0] == 'bin-word':
            continue
        opnd = [i for i, s_ in enumerate(p.rhs) if s_ == 'expr']
        optoks = [s_ for s_ in p.rhs if s_ != 'expr']
        optext = ' '.join((spelling(g.lexer, t_) or t_) for t_ in optoks)

        def mk(kind_, tag):
            if kind_ == 'column':
                return Obj('Identifier', parts=[tag], alias=None, parentheses=False)
            if kind_ == 'constant':
                return Obj('Constant', value=5, alias=None, parentheses=False)
            if kind_ in ('comparison', 'comparison-parenthesised'):
                return Obj('BinaryOperation', op='=', args=[Obj('Identifier', parts=[f'{tag}l'], alias=None, parentheses=False), Obj('Constant', value=1, alias=None, parentheses=False)],
                           alias=None, parentheses=kind_ == 'comparison-parenthesised')
            if kind_ == 'tuple':
                return Obj('Tuple', items=[Obj('Constant', value=1, alias=None, parentheses=False)], alias=None, parentheses=False)
            opk = 'UnaryOperation' if k[0] == 'un' else ('BetweenOperation' if k[0] == 'between' else 'BinaryOperation')
            inner = [Obj('Identifier', parts=[f'{tag}{j}'], alias=None, parentheses=False) for j in range(len(opnd))]
            return Obj(opk, op=optext.lower() if kind_ == 'same-lower' else optext.upper(), args=inner, alias=None, parentheses=kind_ == 'same-parenthesised')
        variants = [['column'] * len(opnd)]
        for i in range(len(opnd)):
            for kind_ in ('same-lower', 'same-upper', 'same-parenthesised', 'constant', 'tuple', 'comparison', 'comparison-parenthesised'):
                v = ['column'] * len(opnd)
                v[i] = kind_
                variants.append(v)
        for v in variants:
            operands = [mk(kind_, f'o{i}') for i, kind_ in enumerate(v)]
            values, oi = [], 0
            for s_ in p.rhs:
                if s_ == 'expr':
                    values.append(operands[oi])
                    oi += 1
                else:
                    values.append(spelling(g.lexer, s_) or s_)
            it = Interp.for_file(ctx.src, g.file, isa, {}, also=ast_files)
            label = f'{d}:[{p}]:operands={"/".join(v)}'
            n += 1
            before = [o.clone() for o in operands]
            try:
                res = it.call_function(p.func, [Obj('Parser'), prod_record(p, values)], {}, Env())
            except Raised as r:
                ctx.ob('C03.operator-action', label, False, f'{d}: the action of `{p}` raises {r.exc_name} on operands {v}', file=g.file, line=p.line)
                continue
            args = res.attrs.get('args') if isinstance(res, Obj) else None
            ok = isinstance(res, Obj) and it.is_instance(res, ['Operation']) and isinstance(args, (list, tuple)) and len(args) == len(operands) \
                and all(a is b for a, b in zip(args, operands)) and not any(res is o for o in operands) and (
                    str(res.attrs.get('op', '')).lower() == optext.lower() or (k[0] == 'between' and res.kind == 'BetweenOperation' and str(res.attrs.get('op', 'between')).lower() == 'between'))
            changed = [i for i, (o, b) in enumerate(zip(operands, before)) if o != b]
            ctx.ob('C03.operator-action', label + ':operands-untouched', not changed,
                   f'{d}: the action of `{p}` on operands {v} changes operand {changed} itself (before {[repr(before[i])[:70] for i in changed]}, after '
                   f'{[repr(operands[i])[:70] for i in changed]}): the parentheses the user wrote around an operand (or its operator) are part of the grouping - '
                   f'`a - (b - c)` without the mark prints and re-groups as `(a - b) - c`', file=g.file, line=p.line, witness='select a - (b - c)')
            ctx.ob('C03.operator-action', label, ok,
                   f'{d}: the action of `{p}` on operands {v} builds {res!r:.120}; it must build the operation `{optext}` over exactly its operands (each written operator '
                   f'is one node of the tree, whatever the operands are): evaluating the tree otherwise differs from evaluating the text',
                   file=g.file, line=p.line, witness='select not not a' if k[0] == 'un' else None)
    ctx.count('operator_action_rows', n)


def check_dialect(ctx, d):
    g = load_dialect(ctx.src, d)
    check_operator_actions(ctx, g, d)
    t = tables_for(ctx.src, d)
    P = g.productions
    infix = infix_classes(g)
    # (1) every operator token of a reference class that the grammar uses has a precedence level
    used = set()
    for p in P[1:]:
        k = prod_kind(p)
        if k:
            for s in p.rhs:
                if s in g.tokens and (tok_class(s) is not None):
                    used.add(s)
            if k[0] in ('bin', 'bin-word') and p.rhs[1] in g.tokens:
                used.add(p.rhs[1])          # the token in infix position is the one whose level decides the grouping (NOT of `a NOT NULL`)
    for tok in sorted(used):
        ctx.ob('C03.token-has-level', f'{d}:{tok}', tok in g.precmap,
               f'{d}: operator token {tok} is used by an operator production but has no entry in '
               f'{g.cls}.precedence; sly gives it level 0, below OR',
               file=g.file, line=g.precedence[0][2] if g.precedence else None,
               witness=f'a {spelling(g.lexer, tok) or tok} 2 = 0')
    for tok, cs in sorted(infix.items()):
        ctx.ob('C03.infix-class-unique', f'{d}:{tok}', len(cs) == 1,
               f'{d}: token {tok} heads infix productions of different classes {sorted(cs)}', file=g.file)
    # (1b) an operator written as several words is one token whatever ignored whitespace separates the words: otherwise the ordered lexer falls back to the
    # single-word tokens and the grammar groups them differently (`a IS <newline> NOT NULL` -> `a IS (NOT NULL)`)
    from ..lexmodel import master_for
    master = master_for(g.lexer)
    ncomp = 0
    for tok in sorted(set(used) | set(infix)):
        sp = spelling(g.lexer, tok)
        if not sp or len(sp.split()) < 2:
            continue
        ncomp += 1
        for sep in (' ', '\t', '\n', '\r\n', '  \n\t '):
            text = sep.join(sp.split())
            got = master.types(text)
            ctx.ob('C03.compound-operator-token', f'{d}:{tok}:{sep!r}', got == [tok],
                   f'{d}: the operator `{sp}` written with {sep!r} between its words lexes to {got} instead of the single token {tok}: the words are then '
                   f'grouped by the rules of the single-word operators (`a IS (NOT NULL)`)', file=g.lexer.file if hasattr(g.lexer, 'file') else g.file,
                   witness=f'select a {text} b')
    ctx.count('compound_operator_tokens', ncomp)
    # (1c) the words of such an operator can also arrive as TWO tokens (a comment between them is not white space for the token's pattern).  If the grammar accepts
    # that sequence at all, the tree it builds must be the one of the compound operator: `a IS /* c */ NOT NULL` is `a IS NOT NULL`, not `a IS (NOT NULL)`
    from ..lalr import lr_parse
    from ..interp import Interp, Obj, Raised, Env
    from ..grammar import prod_record
    ast_files = tuple(sorted(f for f in ctx.src.py_files('mindsdb_sql/parser') if '/ast/' in f))
    isa_ = {'UnaryOperation': {'Operation', 'ASTNode'}, 'BinaryOperation': {'Operation', 'ASTNode'}, 'BetweenOperation': {'Operation', 'ASTNode'},
            'Identifier': {'ASTNode'}, 'Constant': {'ASTNode'}, 'NullConstant': {'Constant', 'ASTNode'}, 'Tuple': {'ASTNode'}}
    for tok in sorted(set(used) | set(infix)):
        sp = spelling(g.lexer, tok)
        if not sp or len(sp.split()) != 2:
            continue
        w1, w2 = sp.split()
        t1, t2 = master.types(w1), master.types(w2)
        if not (t1 and t2 and len(t1) == 1 and len(t2) == 1):
            continue
        t1, t2 = t1[0], t2[0]
        ok_seq, reds = lr_parse(t, ['SELECT', 'ID', t1, t2, 'ID'])
        cons = f'{d}:{tok}:as two tokens {t1} {t2}'
        if not ok_seq:
            ctx.ob('C03.compound-operator-token', cons, True)
            continue
        q1 = next((q for q in P[1:] if q.rhs == ('expr', t1, 'expr')), None)
        q2 = next((q for q in P[1:] if q.rhs == (t2, 'expr')), None)
        qt = next((q for q in P[1:] if q.rhs == ('expr', tok, 'expr')), None)
        if q1 is None or q2 is None or qt is None or q1.func is None or q2.func is None or qt.func is None:
            raise AnalysisError(f'{d}: the sequence {t1} {t2} is accepted but the productions that read it are not `expr {t1} expr` / `{t2} expr` (unmodelled)')

        def col(name):
            return Obj('Identifier', parts=[name], alias=None, parentheses=False)

        def act(q, values):
            return Interp.for_file(ctx.src, g.file, isa_, {}, also=ast_files).call_function(q.func, [Obj('Parser'), prod_record(q, values)], {}, Env())
        a_, b_ = col('a'), col('b')
        try:
            inner = act(q2, [w2, b_])
            got = act(q1, [a_, w1, inner])
            ref = act(qt, [a_, sp, b_])
            def sig(n):
                return (n.kind, ' '.join(str(n.attrs.get('op', '')).lower().split()), [x is a_ or x is b_ for x in (n.attrs.get('args') or [])], len(n.attrs.get('args') or []))
            same = isinstance(got, Obj) and isinstance(ref, Obj) and sig(got) == sig(ref) and list(got.attrs.get('args'))[1] is b_
            shown = f'{got!r:.90}'
        except Raised as r:
            same, shown = r.exc_name == 'ParsingException', f'<{r.exc_name}>'
        ctx.ob('C03.compound-operator-token', cons, same,
               f'{d}: `a {w1} /* comment */ {w2} b` is lexed as the two tokens {t1} {t2} and accepted; the actions build {shown} instead of the `{sp}` operation over a and b: '
               f'the operator is applied to `{w2} b` (a IS (NOT NULL) is a IS NULL - the opposite of what is written)', file=g.file, line=q1.line,
               witness=f'select a {w1} /* c */ {w2} null')
    # (2) the grouping obligations
    nops = 0
    matrix = {}
    betweens = [q for q in P[1:] if (prod_kind(q) or ('',))[0] == 'between']
    for p in P[1:]:
        k = prod_kind(p)
        if not k:
            continue
        nops += 1
        for st, I in enumerate(t.states):
            if (p.number, len(p.rhs)) not in I:
                continue
            if p.rhs == ('expr', 'AND', 'expr') and any((q.number, 5) in I for q in betweens):
                continue        # `a BETWEEN b AND c .`: decided by C03.between-wins below
            for b in sorted(t.LA.get((st, p.number), ())):
                cb = None
                if b in infix and len(infix[b]) == 1:
                    cb = next(iter(infix[b]))
                if cb is None:
                    continue
                exp = expected(k[2], cb)
                if exp is None:
                    continue
                a = kind(t, st, b)
                if a is None:
                    got = 'absent'
                elif a[0] == ERROR:
                    got = 'error'
                elif a[0] == SHIFT:
                    got = 'shift'
                elif a[0] == REDUCE and a[1] == p.number:
                    got = 'reduce'
                elif a[0] == REDUCE and exp == 'shift' and prod_kind(P[a[1]]) is None and len(P[a[1]].rhs) < len(p.rhs) and (a[1], len(P[a[1]].rhs)) in I:
                    got = 'shift'       # the last word is first reduced to an operand of its own (`last` as a column name): the operator production stays open
                else:
                    got = f'reduce by other production ({P[a[1]]})' if a[0] == REDUCE else a[0]
                lab = f'{d}:{k[1]}/{b}'
                matrix.setdefault(lab, set()).add(got)
                ok = got == exp
                cons = f'{d}:[{p}]:state({" | ".join(t.items_str(st))}):{b}'
                w = witness(g, p, k, b, exp)
                want = ('the left operator binds first' if exp == 'reduce' else 'the right operator binds first')
                ctx.ob('C03.grouping', cons, ok,
                       f'{d}: after `{p}` with look-ahead {b} the table says {got}, SQL precedence '
                       f'({CLASS_NAME[k[2]]} vs {CLASS_NAME[cb]}) requires {exp} ({want})',
                       file=g.file, line=p.line, witness=w)
                ctx.count('quadruples')
                if len(ctx.samples) < 12 and (st % 37 == 0):
                    ctx.sample({'dialect': d, 'production': str(p), 'state': st, 'lookahead': b,
                                'expected': exp, 'table': got, 'witness': w})
    ctx.count('operator_productions', nops)
    # (3) BETWEEN ... AND: the AND is shifted inside BETWEEN and the BETWEEN production wins the reduce/reduce
    for p in P[1:]:
        k = prod_kind(p)
        if not k or k[0] != 'between':
            continue
        andp = [q for q in P[1:] if q.rhs == ('expr', 'AND', 'expr')]
        for st, I in enumerate(t.states):
            if (p.number, 3) in I:
                a = kind(t, st, 'AND')
                ctx.ob('C03.between-and-shift', f'{d}:state({" | ".join(t.items_str(st))})',
                       a is not None and a[0] == SHIFT,
                       f'{d}: in `expr BETWEEN expr . AND expr` the AND is not shifted (table: {a})',
                       file=g.file, line=p.line, witness='a BETWEEN 1 AND 2')
                ctx.count('between_states')
            if (p.number, 5) in I and andp and (andp[0].number, 3) in I:
                for b in sorted(t.LA.get((st, p.number), set()) & t.LA.get((st, andp[0].number), set())):
                    a = kind(t, st, b)
                    ok = a is not None and a[0] == REDUCE and a[1] == p.number
                    # operator look-aheads that bind tighter than a comparison are shifted first; that is
                    # covered by C03.grouping for both productions
                    cb = next(iter(infix[b])) if b in infix and len(infix[b]) == 1 else None
                    if cb is not None and cb > 3:
                        continue
                    if cb == 3:
                        continue
                    if cb is None and a is not None and a[0] == SHIFT:
                        continue        # infix operator outside the statement's list (->, ::, ||): not judged
                    ctx.ob('C03.between-wins', f'{d}:{b}', ok,
                           f'{d}: after `a BETWEEN b AND c` with look-ahead {b} the table reduces '
                           f'`expr AND expr` (or does something else: {a}) instead of the BETWEEN production',
                           file=g.file, line=p.line, witness=f'x BETWEEN 1 AND 2 {spelling(g.lexer, b) or ""}')
                    ctx.count('between_rr')
    ctx.extra.setdefault('grouping_matrix', {}).update({k: sorted(v) for k, v in sorted(matrix.items())})
    ctx.extra.setdefault('tables', {})[d] = {'productions': len(P), 'states': len(t.states),
                                           'action_entries': sum(len(a) for a in t.action),
                                           'build_s': round(t.build_s, 3)}
    # operators outside the statement's list: evidence only
    others = sorted({p.rhs[1] for p in P[1:] if p.name == 'expr' and len(p.rhs) >= 3 and p.rhs[0] == 'expr'
                     and p.rhs[1] in g.tokens and prod_kind(p) is None})
    if others:
        ctx.note(f'{d}: infix operators outside the property statement (not judged): {", ".join(others)}')


# -- sly's conflict resolver, compared as a truth table with the yacc rule lalr.py implements -----

def _eval(node, env):
    if isinstance(node, ast.BoolOp):
        vals = [_eval(v, env) for v in node.values]
        return all(vals) if isinstance(node.op, ast.And) else any(vals)
    if isinstance(node, ast.UnaryOp) and isinstance(node.op, ast.Not):
        return not _eval(node.operand, env)
    if isinstance(node, ast.Compare) and len(node.ops) == 1:
        l, r = _eval(node.left, env), _eval(node.comparators[0], env)
        op = node.ops[0]
        if isinstance(op, ast.Lt): return l < r
        if isinstance(op, ast.LtE): return l <= r
        if isinstance(op, ast.Gt): return l > r
        if isinstance(op, ast.GtE): return l >= r
        if isinstance(op, ast.Eq): return l == r
        if isinstance(op, ast.NotEq): return l != r
        if isinstance(op, ast.In): return l in r
        if isinstance(op, ast.NotIn): return l not in r
    if isinstance(node, ast.Name) and node.id in env:
        return env[node.id]
    if isinstance(node, ast.Constant):
        return node.value
    if isinstance(node, (ast.Tuple, ast.List, ast.Set)):
        return [_eval(e, env) for e in node.elts]
    raise AnalysisError(f'sly conflict predicate uses an unmodelled construct: {norm(node)}')


def _branch_outcome(body):
    """What a branch of the resolver stores into st_action[a]: 'reduce' / 'shift' / 'error' / None (keeps)."""
    out = None
    for st in body:
        for n in ast.walk(st):
            if isinstance(n, ast.Assign) and len(n.targets) == 1 and isinstance(n.targets[0], ast.Subscript) \
                    and norm(n.targets[0].value) == 'st_action':
                v = n.value
                if isinstance(v, ast.Constant) and v.value is None:
                    out = 'error'
                elif isinstance(v, ast.UnaryOp) and isinstance(v.op, ast.USub):
                    out = 'reduce'
                elif isinstance(v, ast.Name):
                    out = 'shift'
                else:
                    raise AnalysisError(f'sly resolver stores an unmodelled value: {norm(n)}')
    return out


def check_sly_resolver(ctx):
    file = 'sly/yacc.py'
    tree = ctx.src.tree(file)
    fn = None
    for n in ast.walk(tree):
        if isinstance(n, ast.FunctionDef) and n.name == 'lr_parse_table':
            fn = n
    ctx.need(fn is not None, 'sly/yacc.py: LRTable.lr_parse_table not found')
    chains = []
    for n in ast.walk(fn):
        if isinstance(n, ast.If):
            names = {x.id for x in ast.walk(n.test) if isinstance(x, ast.Name)}
            if {'slevel', 'rlevel'} <= names:
                inner = False
                par = getattr(n, '_parent', None)
                while par is not None and par is not fn:
                    if isinstance(par, ast.If) and {'slevel', 'rlevel'} <= \
                            {x.id for x in ast.walk(par.test) if isinstance(x, ast.Name)}:
                        inner = True        # elif of the chain, or a diagnostic `if` inside a branch
                        break
                    par = getattr(par, '_parent', None)
                if not inner:
                    chains.append(n)
    ctx.need(len(chains) == 2, f'sly/yacc.py: expected 2 precedence-resolution if-chains in lr_parse_table, found {len(chains)}')

    def run_chain(node, env):
        while True:
            if _eval(node.test, env):
                return _branch_outcome(node.body)
            if len(node.orelse) == 1 and isinstance(node.orelse[0], ast.If):
                node = node.orelse[0]
                continue
            return _branch_outcome(node.orelse)

    def yacc(cmp, rprec):
        if cmp == '<':
            return 'reduce'
        if cmp == '>':
            return 'shift'
        return {'left': 'reduce', 'right': 'shift', 'nonassoc': 'error'}[rprec]

    seen_inc = set()
    for ch in chains:
        first = _branch_outcome(ch.body)
        ctx.need(first in ('reduce', 'shift'), 'sly resolver: first branch of a chain stores neither a shift nor a reduce')
        incumbent = 'shift' if first == 'reduce' else 'reduce'
        seen_inc.add(incumbent)
        for cmp, (sl, rl) in (('<', (1, 2)), ('=', (2, 2)), ('>', (2, 1))):
            for rprec in ('left', 'right', 'nonassoc'):
                env = {'slevel': sl, 'rlevel': rl, 'rprec': rprec, 'sprec': 'left'}
                got = run_chain(ch, env) or incumbent
                exp = yacc(cmp, rprec)
                ctx.ob('C03.sly-resolver', f'incumbent={incumbent}:slevel{cmp}rlevel:{rprec}', got == exp,
                       f'sly/yacc.py lr_parse_table: with token level {cmp} rule level and rule associativity {rprec} '
                       f'(existing entry: {incumbent}) the generator chooses {got}; yacc semantics (and sa/lalr.py) say {exp}',
                       file=file, line=ch.lineno)
    ctx.need(seen_inc == {'shift', 'reduce'}, 'sly resolver: the two chains do not cover both arrival orders')
    # defaults and the reduce/reduce rule
    defaults = [n for n in ast.walk(fn) if isinstance(n, ast.Call) and norm(n.func) == 'Precedence.get']
    ctx.need(len(defaults) >= 2, 'sly resolver: Precedence.get(...) calls not found')
    def const_of(e):
        # a literal, or a local name bound exactly once (anywhere in the function) to a literal
        if isinstance(e, ast.Name):
            defs = [a.value for a in ast.walk(fn) if isinstance(a, ast.Assign) and any(isinstance(t, ast.Name) and t.id == e.id for t in a.targets)]
            stores = [x for x in ast.walk(fn) if isinstance(x, ast.Name) and x.id == e.id and isinstance(x.ctx, ast.Store)]
            if len(defs) == 1 and len(stores) == 1:
                e = defs[0]
        try:
            return ast.literal_eval(e)
        except (ValueError, SyntaxError):
            return None
    for i, c in enumerate(defaults):
        ok = len(c.args) == 2 and const_of(c.args[1]) == ('right', 0)
        ctx.ob('C03.sly-default-prec', f'Precedence.get#{i}', ok,
               f'sly/yacc.py: default precedence of a token without level is {norm(c.args[1]) if len(c.args) > 1 else "missing"}, '
               f"expected ('right', 0)", file=file, line=c.lineno)
    rr = [n for n in ast.walk(fn) if isinstance(n, ast.If) and isinstance(n.test, ast.Compare)
          and {norm(n.test.left), norm(n.test.comparators[0])} == {'oldp.line', 'pp.line'}]
    ctx.need(len(rr) == 1, 'sly resolver: reduce/reduce line comparison not found')
    tst = rr[0].test
    l, r = norm(tst.left), norm(tst.comparators[0])
    op = tst.ops[0]
    new_wins_if_smaller = (l == 'oldp.line' and isinstance(op, ast.Gt)) or (l == 'pp.line' and isinstance(op, ast.Lt))
    stores_new = _branch_outcome(rr[0].body) == 'reduce'
    ctx.ob('C03.sly-rr-rule', 'reduce/reduce', new_wins_if_smaller and stores_new,
           'sly/yacc.py: reduce/reduce conflicts are no longer resolved in favour of the rule defined first '
           '(smaller line)', file=file, line=rr[0].lineno)


def run(ctx):
    ctx.explanation = (
        'Static LALR(1) analysis: the three grammars are extracted from the parser sources with ast, the LALR(1) '
        'action tables are rebuilt by sa/lalr.py exactly as sly builds them, and for every operator production x state '
        'holding its completed item x operator look-ahead the resolved action is compared with the reference SQL '
        'precedence/associativity order of the property statement (C03.grouping). Further rules: every operator token '
        'has a precedence level; BETWEEN..AND shifts its AND and wins its reduce/reduce conflict; sly\'s own conflict '
        'resolver in sly/yacc.py is abstracted to a truth table and compared with the yacc rule the table builder '
        'implements. NOT decided: that evaluating the tree equals a reference engine (needs execution); '
        'parenthesis keeping: C01.paren-kept, re-run here for the expression productions.')
    ctx.not_decided = ['evaluation equivalence with a reference SQL engine',
                       'operators outside the statement list (||, ~, ->, ::) - listed only']
    ctx.assumptions = ["sly's run-time driver Parser.parse implements the LR shift/reduce loop on these tables",
                       'CPython ast module parses the sources as the interpreter does']
    for d in DIALECTS:
        check_dialect(ctx, d)
    check_sly_resolver(ctx)
    # user-written parentheses override the table: the `( expr )` actions keep the mark on whatever operation is inside (C01's interpreted rule, re-run here)
    from . import C01
    from ..core import Ctx as _Ctx
    from ..pymodel import model_for
    sub = _Ctx('C01', ctx.src, ctx.tier)
    C01.check_parens(sub, model_for(ctx.src))
    ctx.setcount('paren_rows', len(sub.constructs))
    ctx.floor('paren_rows', 6)
    ctx.ob('C03.parentheses-kept', 'all', True, '')
    for f_ in sub.findings:
        if ':expr -> ' in f_.construct or 'expr' in f_.construct.split(':')[1][:6]:
            ctx.ob('C03.parentheses-kept', f_.construct, False, f_.msg, file=f_.file, line=f_.line, witness='select (not a) = b')
    ctx.floor('quadruples', 600)
    ctx.floor('operator_productions', 3 * 20)
    ctx.floor('between_states', 3)
    ctx.floor('compound_operator_tokens', 5)
