"""C15 - a time-series model receives exactly its context window plus selected rows.

The row-set clause on data (ties, NULL times, empty partitions) is NOT decided.  Decided: for every time-condition operator
x partition filter x number of group columns x LIMIT, the *queries* the planner builds - obtained by interpreting
plan_timeseries_predictor and the ts_utils helpers on abstract stand-ins - are the reference window / range queries of the
statement; the rejection clauses; the output filter; LIMIT after the join.
"""
import ast
import itertools

from ..source import AnalysisError, norm
from ..cfg import class_named, function_named
from ..interp import class_members, Interp, Obj, Raised, Env
from .C08 import ISA, ident, const, binop, base_stubs, select_ctor, _show

TS = 'mindsdb_sql/planner/plan_join_ts.py'
TU = 'mindsdb_sql/planner/ts_utils.py'
WINDOW = 10
TIME = 'time'


def latest():
    return Obj('Latest')


def between(a, lo, hi):
    return Obj('BetweenOperation', op='between', args=[a, lo, hi], alias=None)


def mk_stubs(ctx, fns, utils_fns, captured):
    stubs = base_stubs()
    stubs['OrderBy'] = lambda it, *a, **k: Obj('OrderBy', field=(a[0] if a else k.get('field')), direction=k.get('direction', a[1] if len(a) > 1 else 'default'),
                                               nulls=k.get('nulls', 'default'))
    stubs['NullConstant'] = lambda it: Obj('NullConstant', value=None, alias=None)
    stubs['Latest'] = lambda it: latest()
    stubs['BetweenOperation'] = lambda it, *a, **k: Obj('BetweenOperation', op='between', args=list(k.get('args') or []), alias=None)
    for name, f in utils_fns.items():
        stubs[name] = (lambda f_: (lambda it, *a, **k: it.call_function(f_, list(a), dict(k), Env())))(f)
    stubs['utils.get_predictor_name_identifier'] = lambda it, p: Obj('Identifier', parts=list(p.parts[1:]) if len(p.parts) > 1 else list(p.parts), alias=p.alias, _from='query')
    stubs['self.planner.get_predictor'] = lambda it, p: captured['metadata']

    def add_step(it, step):
        captured['plan'].append(step)
        step.result = Obj('Result', ref_name=f'result_{len(captured["plan"])}', _step=step)
        return step
    stubs['self.planner.plan.add_step'] = add_step

    def fetch_step(it, s):
        # like QueryPlanner.get_integration_select_step: the step holds a deep copy of the select it is given
        c = s.clone()
        c.from_table = s.from_table
        st = Obj('FetchDataframeStep', query=c, integration='int1')
        captured['fetches'].append(c)
        return st
    stubs['self.planner.get_integration_select_step'] = fetch_step

    def plan_int_select(it, s):
        captured['partition_queries'].append(s)
        return add_step(it, Obj('FetchDataframeStep', query=s, integration='int1'))
    stubs['self.planner.plan_integration_select'] = plan_int_select
    return stubs


_METHODS = {}
_CTX = {}


def interp_for(stubs, file=None, **kw):
    """an interpreter that resolves methods and class constants of the planner classes and the module-level names of `file`"""
    return Interp.for_file(_CTX['src'], file or TS, ISA, stubs, also=('mindsdb_sql/planner/plan_join.py', 'mindsdb_sql/planner/query_planner.py', 'mindsdb_sql/planner/ts_utils.py', 'mindsdb_sql/planner/utils.py'), **kw)


def run(ctx):
    ctx.explanation = (
        'plan_timeseries_predictor, plan_fetch_timeseries_partitions, plan() and the ts_utils helpers (validate_ts_where_condition, '
        'find_time_filter, replace_time_filter, find_and_remove_time_filter) are interpreted together (fail-closed AST interpreter, abstract '
        'stand-ins) for 9 time conditions {>, >=, =, <, <=, BETWEEN, > LATEST, = LATEST, none} x partition filter {none, before, after the time '
        'condition} x {0, 1, 2} group columns x LIMIT {none, 7}: every fetch query is compared with the reference - a window query (ORDER BY '
        'time DESC LIMIT window, bound = complement of the user\'s lower bound, time IS NOT NULL) and/or a range query (the user\'s condition, no '
        'LIMIT), all with the user\'s partition filters and one $var conjunct per group column, nothing else; the partition query is DISTINCT '
        'group columns under the non-time filters; the output filter is the user\'s condition (`= v` is passed as `> v`, pinned by the '
        'test-suite and listed); the user\'s LIMIT appears in no fetch and becomes a LimitOffsetStep on the JoinStep\'s result; ORDER BY, GROUP '
        'BY, HAVING, OFFSET, other columns, other operators and two time conditions end in PlanningException before any step is added.')
    ctx.not_decided = ['the rows selected on data (ties at the boundary, NULL times, empty partitions)', 'the dbt path adapt_dbt_query']
    tree = ctx.src.tree(TS)
    cls = class_named(tree, 'PlanJoinTSPredictorQuery')
    ctx.need(cls is not None, 'PlanJoinTSPredictorQuery not found')
    fns = class_members(cls)
    _CTX.update(tree=tree, src=ctx.src)
    for need in ('plan_timeseries_predictor', 'plan_fetch_timeseries_partitions', 'plan'):
        ctx.need(need in fns, f'{need} not found')
    utree = ctx.src.tree(TU)
    utils_fns = {n.name: n for n in utree.body if isinstance(n, ast.FunctionDef)}
    for need in ('validate_ts_where_condition', 'find_time_filter', 'replace_time_filter', 'find_and_remove_time_filter'):
        ctx.need(need in utils_fns, f'ts_utils.{need} not found')
    ptp = fns['plan_timeseries_predictor']
    rows = 0

    def run_ptp(where, groups, limit, extra=None, meta_time=TIME):
        captured = {'plan': [], 'fetches': [], 'partition_queries': [],
                    'metadata': {'order_by_column': meta_time, 'group_by_columns': list(groups), 'window': WINDOW, 'timeseries': True, 'name': 'tp'}}
        stubs = mk_stubs(ctx, fns, utils_fns, captured)
        self_ = Obj('PlanJoinTSPredictorQuery')
        stubs['self.plan_fetch_timeseries_partitions'] = lambda it, *a, **k: it.call_function(fns['plan_fetch_timeseries_partitions'], [self_] + list(a), dict(k), Env())
        q = select_ctor(None, targets=[Obj('Star')], where=where, limit=const(limit) if limit is not None else None, modifiers=None)
        for k, v in (extra or {}).items():
            setattr(q, k, v)
        table = Obj('Identifier', parts=['int1', 'tbl'], alias=Obj('Identifier', parts=['ta'], alias=None))
        predictor = Obj('Identifier', parts=['proj', 'tp'], alias=Obj('Identifier', parts=['tb'], alias=None))
        it = interp_for(stubs, max_steps=60000)
        out = {'raised': None, 'ret': None}
        try:
            out['ret'] = it.call_function(ptp, [self_, q, table, 'proj', predictor], {}, Env())
        except Raised as r:
            out['raised'] = r.exc_name
        out.update(captured)
        out['table'] = table
        out['query'] = q
        return out

    tcol = lambda: ident('ta.' + TIME)
    conds = {
        '>': lambda: binop('>', tcol(), const(5)), '>=': lambda: binop('>=', tcol(), const(5)), '=': lambda: binop('=', tcol(), const(5)),
        '<': lambda: binop('<', tcol(), const(5)), '<=': lambda: binop('<=', tcol(), const(5)),
        'between': lambda: between(tcol(), const(3), const(8)),
        '> latest': lambda: binop('>', tcol(), latest()), '= latest': lambda: binop('=', tcol(), latest()), 'none': lambda: None,
        # the same conditions written value-first: `5 < time` is `time > 5`
        'rev >': lambda: binop('<', const(5), tcol()), 'rev >=': lambda: binop('<=', const(5), tcol()), 'rev <': lambda: binop('>', const(5), tcol()),
        'rev <=': lambda: binop('>=', const(5), tcol()), 'rev =': lambda: binop('=', const(5), tcol()),
    }
    # reference: (window bound as (op, value) or None for "no bound" or False for "no window query", range query expected?)
    REF = {'>': (('<=', 5), True), '>=': (('<', 5), True), '=': (('<=', 5), False), '<': (False, True), '<=': (False, True),
           'between': (('<', 3), True), '> latest': (None, False), '= latest': (None, False), 'none': (False, True)}
    for k_ in ('>', '>=', '<', '<=', '='):
        REF['rev ' + k_] = REF[k_]
    OUT = {'=': ('>', 5), 'rev =': ('>', 5)}       # pinned by tests/test_planner/test_ts_predictor.py::test_join_predictor_timeseries_concrete_date_equal
    for op, pf, groups, limit in itertools.product(conds, ('none', 'before', 'after', 'nested-right', 'nested-left'), ([], ['grp'], ['grp', 'g2']), (None, 7, 0)):
        if limit == 0 and not (pf == 'none' and groups == ['grp']):
            continue        # LIMIT 0 (a LIMIT, though falsy): one row per operator is enough
        if op.startswith('rev') and pf.startswith('nested'):
            continue
        if pf != 'none' and 'grp' not in groups:
            continue        # a filter on a column that is not a group column is rejected (see C15.rejects)
        if pf.startswith('nested') and ('g2' not in groups or op == 'none'):
            continue
        tf = conds[op]()
        part = binop('=', ident('ta.grp'), const(1)) if pf != 'none' else None
        if pf.startswith('nested'):
            # a parenthesised group: grp = 1 AND (g2 = 2 AND <time>)  /  (<time> AND g2 = 2) AND grp = 1
            part2 = binop('=', ident('ta.g2'), const(2))
            where = binop('and', part, binop('and', part2, tf)) if pf == 'nested-right' else binop('and', binop('and', tf, part2), part)
        else:
            parts_ = [x for x in ((part, tf) if pf == 'before' else (tf, part)) if x is not None]
            where = None
            for x in parts_:
                where = x if where is None else binop('and', where, x)
        user_tf_sig = _sig(tf) if tf is not None else None
        label = f'time {op} | partition filter {pf} | group columns {groups} | limit {limit}'
        res = run_ptp(where, groups, limit)
        rows += 1
        if res['raised']:
            ctx.ob('C15.plans', label, False, f'[{label}] a supported query is refused with {res["raised"]}', file=TS, line=ptp.lineno)
            continue
        fetches = res['fetches']
        wbound, want_range = REF[op]
        want_n = (0 if wbound is False else 1) + (1 if want_range else 0)
        ctx.ob('C15.query-set', f'{op}:count', len(fetches) == want_n,
               f'[{label}] {len(fetches)} fetch queries are built, the reference is {want_n} ({"window" if wbound is not False else ""}'
               f'{" + " if wbound is not False and want_range else ""}{"range" if want_range else ""})', file=TS, line=ptp.lineno)
        seen_window = seen_range = 0
        for s in fetches:
            cj = _conjuncts(s.where)
            sigs = [_sig(c) for c in cj]
            is_window = s.limit is not None
            kind = 'window' if is_window else 'range'
            # classification of conjuncts
            notnull = [x for x in sigs if x == ('is not', TIME, None)]
            varc = [x for x in sigs if x[0] == '=' and isinstance(x[2], str) and x[2].startswith('$var[')]
            partc = [x for x in sigs if x == ('=', 'grp', 1)]
            part2c = [x for x in sigs if x == ('=', 'g2', 2)]
            timec = [x for x in sigs if x[1] == TIME and x not in notnull]
            other = [x for x in sigs if x not in notnull and x not in varc and x not in partc and x not in timec and x not in part2c]
            if pf.startswith('nested'):
                ctx.ob('C15.partition-filter', f'{op}:{kind}:nested', len(part2c) == 1, f'[{label}] the user\'s filter g2 = 2 (inside a parenthesised group) occurs '
                       f'{len(part2c)}x in the {kind} query', file=TS, line=ptp.lineno)
            ctx.ob('C15.not-null', f'{op}:{kind}', len(notnull) == 1, f'[{label}] the {kind} query has {len(notnull)} `{TIME} IS NOT NULL` conjunct(s), expected 1: '
                   f'rows without an order value must not reach the model', file=TS, line=ptp.lineno)
            ctx.ob('C15.partition-filter', f'{op}:{kind}', len(partc) == (1 if pf != 'none' else 0),
                   f'[{label}] the user\'s partition filter grp = 1 occurs {len(partc)}x in the {kind} query', file=TS, line=ptp.lineno)
            ctx.ob('C15.group-vars', f'{op}:{kind}', sorted(x[1] for x in varc) == sorted(groups) and all(x[2] == f'$var[{x[1]}]' for x in varc),
                   f'[{label}] the {kind} query must restrict every group column to the current partition value: found {varc}, group columns {groups}',
                   file=TS, line=ptp.lineno)
            ctx.ob('C15.no-foreign-conjunct', f'{op}:{kind}', not other, f'[{label}] the {kind} query has conjuncts that are neither the user\'s nor the window\'s: {other}',
                   file=TS, line=ptp.lineno)
            ctx.ob('C15.order', f'{op}:{kind}', s.order_by is not None and len(s.order_by) == 1 and _field(s.order_by[0]) == TIME and str(s.order_by[0].direction).upper() == 'DESC',
                   f'[{label}] the {kind} query must be ordered by {TIME} DESC (the LIMIT of the window query takes the most recent rows)', file=TS, line=ptp.lineno)
            ctx.ob('C15.from', f'{op}:{kind}', s.from_table is res['table'] or s.from_table == res['table'], f'[{label}] the {kind} query reads another table', file=TS, line=ptp.lineno)
            if is_window:
                seen_window += 1
                ctx.ob('C15.window-limit', op, s.limit.value == WINDOW,
                       f'[{label}] a fetch query has LIMIT {s.limit.value}: the only LIMIT allowed in a fetch is the model\'s window ({WINDOW}); the user\'s LIMIT applies '
                       f'after the join', file=TS, line=ptp.lineno)
                if wbound is False:
                    ctx.ob('C15.window-bound', f'{op}:unexpected-window', False, f'[{label}] a window query is built although the condition has no lower bound', file=TS, line=ptp.lineno)
                else:
                    want = [] if wbound is None else [(wbound[0], TIME, wbound[1])]
                    ctx.ob('C15.window-bound', op, timec == want,
                           f'[{label}] the window query is bounded by {timec}, the reference is {want}: the context rows are the most recent rows that precede '
                           f'the lower bound of the user\'s condition (complement of the bound; none for LATEST)', file=TS, line=ptp.lineno,
                           witness=f'select * from int1.tbl ta join proj.tp tb where ta.{TIME} {op} ...')
            else:
                seen_range += 1
                want = [user_tf_sig] if user_tf_sig is not None else []
                ctx.ob('C15.range-query', op, timec == want and want_range,
                       f'[{label}] the un-limited query has the time condition {timec}, the reference is {want if want_range else "no range query"}: it must select '
                       f'exactly the rows that satisfy the user\'s condition', file=TS, line=ptp.lineno)
        ctx.ob('C15.query-set', f'{op}:kinds', seen_window == (0 if wbound is False else 1) and seen_range == (1 if want_range else 0),
               f'[{label}] built {seen_window} window and {seen_range} range queries', file=TS, line=ptp.lineno)
        # partition query
        if groups:
            pq = res['partition_queries']
            ok = len(pq) == 1 and pq[0].distinct is True and [_field_of(t) for t in pq[0].targets] == groups
            sig_p = [_sig(c) for c in _conjuncts(pq[0].where)] if pq else None
            want_p = [('=', 'grp', 1)] if pf != 'none' else []
            if pf.startswith('nested'):
                want_p = sorted(want_p + [('=', 'g2', 2)])
                sig_p = sorted(sig_p) if sig_p is not None else None
            ctx.ob('C15.partitions', f'{op}:{len(groups)}', ok and sig_p == want_p,
                   f'[{label}] the partition values must come from SELECT DISTINCT {groups} under the non-time filters only; found where={sig_p}', file=TS, line=ptp.lineno)
            mr = [s for s in res['plan'] if s.kind == 'MapReduceStep']
            ctx.ob('C15.partitions', f'{op}:{len(groups)}:map-reduce', len(mr) == 1 and mr[0].values is res['plan'][0].result,
                   f'[{label}] the fetch queries must run once per partition value (MapReduceStep over the partition query)', file=TS, line=ptp.lineno)
        else:
            ctx.ob('C15.partitions', f'{op}:0', not res['partition_queries'], f'[{label}] a model without group columns has no partition query', file=TS, line=ptp.lineno)
        # apply step
        ap = [s for s in res['plan'] if s.kind == 'ApplyTimeseriesPredictorStep']
        ok = len(ap) == 1 and res['plan'][-1] is ap[0]
        ctx.ob('C15.apply', f'{op}:one', ok, f'[{label}] exactly one ApplyTimeseriesPredictorStep, added last', file=TS, line=ptp.lineno)
        if ok:
            a = ap[0]
            data = res['plan'][-2]
            ctx.ob('C15.apply', f'{op}:dataframe', a.dataframe is data.result and res['ret']['data'] is data and res['ret']['predictor'] is a,
                   f'[{label}] the model must be applied to the fetched data step', file=TS, line=ptp.lineno)
            ctx.ob('C15.apply', f'{op}:model', a.namespace == 'proj' and a.predictor.attrs.get('_from') == 'query', f'[{label}] namespace / model identifier', file=TS, line=ptp.lineno)
            otf = a.output_time_filter
            want_out = user_tf_sig
            if op in OUT:
                want_out = (OUT[op][0], TIME, OUT[op][1])
            got_out = _sig(otf) if otf is not None else None
            ctx.ob('C15.output-filter', op, got_out == want_out,
                   f'[{label}] output_time_filter is {got_out}, expected {want_out}: the user\'s time condition is passed on as the output filter', file=TS, line=ptp.lineno)
        ctx.ob('C15.limit-after-join', f'{op}:saved', res['ret']['saved_limit'] == limit and all(s.limit is None or s.limit.value != limit for s in fetches),
               f'[{label}] the user\'s LIMIT must be returned as saved_limit ({res["ret"].get("saved_limit")!r}) and appear in no fetch query', file=TS, line=ptp.lineno)
    # ---- letter case of the order column: the query and the model metadata may spell it differently ------------------------------------------------
    for op, (qspell, mspell) in itertools.product(('>', 'between', '=', '> latest'), (('Time', 'time'), ('TIME', 'time'), ('time', 'Time'))):
        tf = {'>': binop('>', ident('ta.' + qspell), const(5)), 'between': between(ident('ta.' + qspell), const(3), const(8)), '=': binop('=', ident('ta.' + qspell), const(5)),
              '> latest': binop('>', ident('ta.' + qspell), latest())}[op]
        res = run_ptp(tf, ['grp'], None, meta_time=mspell)
        rows += 1
        label = f'time {op} | query spells {qspell}, model metadata spells {mspell}'
        wbound, want_range = REF[op]
        want_n = (0 if wbound is False else 1) + (1 if want_range else 0)
        ap = [s_ for s_ in res['plan'] if s_.kind == 'ApplyTimeseriesPredictorStep']
        ok = res['raised'] is None and len(res['fetches']) == want_n and len(ap) == 1 and ap[0].output_time_filter is not None
        if ok:
            # the window query is bounded / the partition query is free of the time condition
            pq = res['partition_queries']
            ok = len(pq) == 1 and not any((_sig(c)[1] or '').lower() == 'time' for c in _conjuncts(pq[0].where))
        ctx.ob('C15.time-column-case', label, ok,
               f'[{label}] the time condition is not recognised when the query and the model metadata spell the order column in different letter case: '
               f'{len(res["fetches"])} fetch queries (reference {want_n}), raised={res["raised"]}, output filter '
               f'{"set" if ap and ap[0].output_time_filter is not None else "missing"}', file=TS, line=ptp.lineno,
               witness='select * from int1.tbl ta join proj.tp tb where ta.Pickup_Hour > 5')
    # ---- rejections -------------------------------------------------------------------------------------------------------------------------
    rej = [
        ('ORDER BY', None, {'order_by': [Obj('OrderBy', field=ident('ta.x'), direction='default', nulls='default')]}),
        ('GROUP BY', None, {'group_by': [ident('ta.x')]}), ('HAVING', None, {'having': binop('=', ident('ta.x'), const(1))}), ('OFFSET', None, {'offset': const(3)}),
        ('filter on another column', binop('=', ident('ta.other'), const(1)), {}),
        ('time > 5 AND other = 1', binop('and', binop('>', tcol(), const(5)), binop('=', ident('ta.other'), const(1))), {}),
        ('operator !=', binop('!=', tcol(), const(5)), {}), ('OR', binop('or', binop('>', tcol(), const(5)), binop('=', ident('ta.grp'), const(1))), {}),
        ('two time conditions', binop('and', binop('>', tcol(), const(5)), binop('<', tcol(), const(9))), {}),
        # another column hidden on the value side of an otherwise allowed condition
        ('group column = other column + 1', binop('=', ident('ta.grp'), binop('+', ident('ta.other'), const(1))), {}),
        ('group column = f(other column)', binop('=', ident('ta.grp'), Obj('Function', op='abs', args=[ident('ta.other')], alias=None, distinct=False, from_arg=None,
                                                                              namespace=None)), {}),
        ('time >= other column - 24', binop('>=', tcol(), binop('-', ident('ta.other'), const(24))), {}),
        ('time > 5 AND group column = other column * 2', binop('and', binop('>', tcol(), const(5)), binop('=', ident('ta.grp'), binop('*', ident('ta.other'), const(2)))), {}),
        ('group column = other column', binop('=', ident('ta.grp'), ident('ta.other')), {}),
    ]
    # any ORDER BY: also one that names the model's own order column, in any direction / letter case / qualification - the statement's ordering is not applied
    # by the plan, so accepting it silently drops it (and a LIMIT then cuts an un-ordered result)
    for col_label, mk in (('the time column', tcol), ('the time column, unqualified', lambda: ident(TIME)), ('the time column in upper case', lambda: ident('ta.' + TIME.upper())),
                          ('a group column', lambda: ident('ta.grp'))):
        for direction in ('default', 'ASC', 'DESC', 'desc'):
            rej.append((f'ORDER BY {col_label} {direction}', None, {'order_by': [Obj('OrderBy', field=mk(), direction=direction, nulls='default')]}))
    rej.append(('ORDER BY the time column DESC, another column', None,
                {'order_by': [Obj('OrderBy', field=tcol(), direction='DESC', nulls='default'), Obj('OrderBy', field=ident('ta.x'), direction='default', nulls='default')]}))
    for label, where, extra in rej:
        res = run_ptp(where, ['grp'], None, extra)
        rows += 1
        ctx.ob('C15.rejects', label, res['raised'] == 'PlanningException' and not res['plan'],
               f'a query to a time-series model with {label} must be rejected with PlanningException before any step is planned; got '
               f'{res["raised"] or "a plan"} ({len(res["plan"])} step(s) added)', file=TS, line=ptp.lineno)
    # ---- the sub-select form (`select .. from (select .. limit N) t join model .. limit M`): adapt_dbt_query merges the two LIMITs ---------------------------
    adq = fns.get('adapt_dbt_query')
    if adq is None:
        ctx.note('PlanJoinTSPredictorQuery.adapt_dbt_query not found: the sub-select form is not planned by this class any more')
    else:
        for inner_l, outer_l in itertools.product((None, 3, 100), (None, 5, 100)):
            inner = select_ctor(None, targets=[Obj('Star')], from_table=Obj('Identifier', parts=['int1', 'tbl'], alias=None), limit=const(inner_l) if inner_l else None,
                                alias=Obj('Identifier', parts=['t1'], alias=None), parentheses=True)
            outer = select_ctor(None, targets=[Obj('Star')], limit=const(outer_l) if outer_l else None,
                                from_table=Obj('Join', left=inner, right=Obj('Identifier', parts=['proj', 'tp'], alias=Obj('Identifier', parts=['m'], alias=None)),
                                               join_type='join', condition=None, implicit=False, alias=None))
            stubs = base_stubs()
            stubs['query_traversal'] = lambda it, node, cb, **k: None
            self_ = Obj('PlanJoinTSPredictorQuery', planner=__import__('sa.rules.C10', fromlist=['real_planner']).real_planner(ctx, ['int1', {'name': 'proj', 'type': 'project'}], []))
            it = interp_for(stubs)
            it.isa.update({'Identifier': set(), 'Join': set()})
            try:
                q2, _left = it.call_function(adq, [self_, outer, 'int1'], {}, Env())
                got = q2.limit.value if isinstance(q2, Obj) and isinstance(q2.attrs.get('limit'), Obj) else None
            except Raised as r:
                got = f'raises {r.exc_name}'
            want = min([x for x in (inner_l, outer_l) if x is not None], default=None)
            rows += 1
            ctx.ob('C15.limit-after-join', f'sub-select form: inner LIMIT {inner_l}, outer LIMIT {outer_l}', got == want,
                   f'`select * from (select .. limit {inner_l}) t1 join model .. limit {outer_l}`: the LIMIT applied after the join is {got}, it must be {want} (the smaller of '
                   f'the user\'s limits; none when there is none)', file=TS, line=adq.lineno,
                   witness='select * from (select * from int1.tbl limit 100) t1 join proj.tp m limit 5')
    # ---- LIMIT after the join (plan) --------------------------------------------------------------------------------------------------------
    pl = fns['plan']
    for saved, left_is_model in itertools.product((None, 7, 0), (False, True)):       # LIMIT 0 is a LIMIT: the answer is empty
        added = []
        pred_step = Obj('ApplyTimeseriesPredictorStep', result=Obj('Result', ref_name='result_2'))
        data_step = Obj('FetchDataframeStep', result=Obj('Result', ref_name='result_1'))
        stubs = base_stubs()
        model, tbl = ident('proj.tp'), ident('int1.tbl')
        stubs['self.planner.is_predictor'] = lambda it, n: n is model
        stubs['self.planner.get_predictor_namespace_and_name_from_identifier'] = lambda it, n: ('proj', n)
        stubs['self.plan_timeseries_predictor'] = lambda it, *a: {'predictor': pred_step, 'data': data_step, 'saved_limit': saved}
        stubs['self.get_aliased_fields'] = lambda it, t: {}
        stubs['recursively_check_join_identifiers_for_ambiguity'] = lambda it, *a, **k: None
        stubs['Join'] = lambda it, **k: Obj('Join', **k)

        def add(it, s):
            added.append(s)
            s.result = Obj('Result', ref_name=f'r{len(added)}')
            return s
        stubs['self.planner.plan.add_step'] = add
        stubs['self.planner.plan_project'] = lambda it, q, df: Obj('Projected', dataframe=df)
        join = Obj('Join', left=model if left_is_model else tbl, right=tbl if left_is_model else model, join_type='JOIN', condition=None)
        q = select_ctor(None, targets=[Obj('Star')], from_table=join)
        it = interp_for(stubs)
        out = it.call_function(pl, [Obj('PlanJoinTSPredictorQuery'), q], {}, Env())
        rows += 1
        kinds = [s.kind for s in added]
        label = f'saved_limit={saved} model on the {"left" if left_is_model else "right"}'
        want = ['JoinStep'] + (['LimitOffsetStep'] if saved is not None else [])
        ok = kinds == want
        if ok and saved is not None:
            ok = added[1].dataframe is added[0].result and added[1].limit == saved
        ctx.ob('C15.limit-after-join', label, ok and out.dataframe is added[-1].result,
               f'[{label}] plan() must add the JoinStep and then, iff the user gave a LIMIT, a LimitOffsetStep(limit=<the LIMIT>) on the JoinStep\'s result; added {kinds}',
               file=TS, line=pl.lineno)
        if kinds[:1] == ['JoinStep']:
            j = added[0]
            sides_ok = (j.left is (pred_step.result if left_is_model else data_step.result)) and (j.right is (data_step.result if left_is_model else pred_step.result))
            ctx.ob('C15.join-sides', label, sides_ok, f'[{label}] the join keeps the sides of the query (model on the {"left" if left_is_model else "right"})', file=TS, line=pl.lineno)
    rows += table_kind_rows(ctx, fns)
    ctx.setcount('truth_table_rows', rows)
    ctx.floor('truth_table_rows', 135)


def table_kind_rows(ctx, fns, rule='C15.table-kind'):
    """plan() interpreted on every kind of thing that can stand beside the model in the join (a table, another join, a set operation, a sub-select over a table -
    the dbt form -, a sub-select over a join): the fetch queries are built `FROM <that thing>` and sent to an integration, so plan_timeseries_predictor may only
    ever be handed a table reference; every other shape is refused with PlanningException / NotImplementedError - not passed on to fail somewhere with an
    internal error (AttributeError: 'Join' object has no attribute 'parts')."""
    pl = fns['plan']
    n = 0
    model = ident('proj.tp')
    shapes = {
        'a table': lambda: ident('int1.tbl'),
        'a native query': lambda: Obj('NativeQuery', integration=ident('int1'), query='select * from tab', alias=ident('t')),
        'another join': lambda: Obj('Join', left=ident('int1.a'), right=ident('proj.other'), join_type='JOIN', condition=None, implicit=False, alias=None),
        'a set operation': lambda: Obj('Union', left=select_ctor(None, targets=[Obj('Star')], from_table=ident('int1.a')),
                                       right=select_ctor(None, targets=[Obj('Star')], from_table=ident('int2.b')), unique=True, alias=None),
        'a sub-select over a table': lambda: select_ctor(None, targets=[Obj('Star')], from_table=ident('int1.tbl')),
        'a sub-select over a join': lambda: select_ctor(None, targets=[Obj('Star')], from_table=Obj('Join', left=ident('int1.a'), right=ident('int1.b'), join_type='JOIN',
                                                                                                   condition=None, implicit=False, alias=None)),
    }
    for (label, mk), left_is_model in itertools.product(shapes.items(), (False, True)):
        other = mk()
        handed = []
        stubs = base_stubs()
        stubs['self.planner.is_predictor'] = lambda it, n_: n_ is model
        stubs['self.planner.get_predictor_namespace_and_name_from_identifier'] = lambda it, n_: ('proj', n_)

        def ptp(it, q, table, *a, handed=handed):
            handed.append(table)
            return {'predictor': Obj('ApplyTimeseriesPredictorStep', result=Obj('Result', ref_name='r2')), 'data': Obj('FetchDataframeStep', result=Obj('Result', ref_name='r1')),
                    'saved_limit': None}
        stubs['self.plan_timeseries_predictor'] = ptp
        stubs['self.get_aliased_fields'] = lambda it, t: {}
        stubs['recursively_check_join_identifiers_for_ambiguity'] = lambda it, *a, **k: None
        stubs['Join'] = lambda it, **k: Obj('Join', **k)
        # adapt_dbt_query (the sub-select form) is interpreted as it is: it has to find the sub-select on whichever side it was written
        stubs['query_traversal'] = lambda it, node, cb, **k: None
        stubs['Latest'] = lambda it: latest()
        stubs['self.planner.plan.add_step'] = lambda it, s_: (setattr(s_, 'result', Obj('Result', ref_name='r')), s_)[1]
        stubs['self.planner.plan_project'] = lambda it, q, df: Obj('Projected', dataframe=df)
        join = Obj('Join', left=model if left_is_model else other, right=other if left_is_model else model, join_type='JOIN', condition=None, implicit=False, alias=None)
        q = select_ctor(None, targets=[Obj('Star')], from_table=join)
        it = interp_for(stubs)
        it.isa.update({'Identifier': set(), 'Join': set(), 'Select': set(), 'Union': set(), 'NativeQuery': set()})
        # everything a table reference / a join can carry: asking one of them for `from_table` is an AttributeError, not an unmodelled stand-in
        it.class_fields = {'Identifier': {'parts', 'alias', 'parentheses', 'is_quoted', 'sub_select', '_table', 'to_string', 'get_string', 'to_tree', 'copy'},
                           'Join': {'left', 'right', 'join_type', 'condition', 'implicit', 'alias', 'parentheses', 'to_string', 'get_string', 'to_tree', 'copy'}}
        raised = None
        try:
            plan_ = Obj('QueryPlan', steps=[Obj('FetchDataframeStep', result=Obj('Result', ref_name='r0'))],
                        add_step=lambda s_: (setattr(s_, 'result', Obj('Result', ref_name='r')), s_)[1])
            from .C10 import real_planner
            it.call_function(pl, [Obj('PlanJoinTSPredictorQuery', planner=real_planner(ctx, ['int1', 'int2', {'name': 'proj', 'type': 'project'}], [], plan=plan_)), q], {}, Env())
        except Raised as r:
            raised = r.exc_name
        n += 1
        ok = (raised in ('PlanningException', 'NotImplementedError') and not handed) or (raised is None and len(handed) == 1 and handed[0].kind in ('Identifier', 'NativeQuery'))
        ctx.ob(rule, f'{label}, model on the {"left" if left_is_model else "right"}', ok,
               f'a time-series model joined with {label}: plan() {"raises " + raised if raised else "hands " + repr([h.kind for h in handed]) + " to plan_timeseries_predictor"}; '
               f'the data side must be a table reference or a native query (the fetch queries are written FROM it), anything else must be refused with PlanningException', file=TS, line=pl.lineno,
               witness='select * from int.tab1 a join proj.pred1 p1 join proj.ts t')
    return n


def _conjuncts(w, top=True):
    """conjuncts of a WHERE; an AND node with a missing (None) operand is reported as such instead of being skipped"""
    if w is None:
        return [] if top else [Obj('MissingOperand', op='<missing operand of AND>', args=[])]
    if isinstance(w, Obj) and w.kind == 'BinaryOperation' and str(w.op).lower() == 'and':
        return _conjuncts(w.args[0], False) + _conjuncts(w.args[1], False)
    return [w]


def _field(ob):
    f = ob.field
    return f.parts[-1] if isinstance(f, Obj) and f.kind == 'Identifier' else None


def _field_of(t):
    return t.parts[-1] if isinstance(t, Obj) and t.kind == 'Identifier' else None


def _sig(c):
    """(op, column, value) of a comparison in canonical form; BETWEEN -> ('between', col, (lo, hi))"""
    if not isinstance(c, Obj) or 'args' not in c.attrs:
        return ('?', None, repr(c))
    op = str(c.op).lower()

    def val(a):
        if a.kind == 'Latest':
            return 'LATEST'
        if a.kind in ('Constant', 'NullConstant'):
            return a.attrs.get('value')
        if a.kind == 'Identifier':
            return ('col', a.parts[-1])
        return a.kind
    args = c.args
    if op == 'between' and len(args) == 3:
        return ('between', args[0].parts[-1] if args[0].kind == 'Identifier' else None, (val(args[1]), val(args[2])))
    if len(args) == 2 and args[0].kind == 'Identifier':
        return (op, args[0].parts[-1], val(args[1]))
    if len(args) == 2 and args[1].kind == 'Identifier':
        # value-first comparison: the same condition with the operator mirrored (`5 < t` is `t > 5`)
        mirror = {'<': '>', '<=': '>=', '>': '<', '>=': '<=', '=': '=', '!=': '!=', '<>': '<>'}
        return (mirror.get(op, op + ' (reversed)'), args[1].parts[-1], val(args[0]))
    return (op, None, [val(a) for a in args])
