"""C04 - string, number and identifier tokens keep exactly the value the SQL text denotes.

The for-all-strings equality is NOT decided.  Decided is the *agreement of finite tables*: what literal
grammar a lexer pattern admits versus what its decoder undoes and what the encoders re-escape, evaluated
on a finite family of representative escape forms, plus structural rules on the decoders/encoders.
"""
import ast
import re

from ..source import AnalysisError, norm, dotted, const_str, walk_no_nested
from ..grammar import load_dialect, DIALECTS
from ..pymodel import model_for
from ..codec import StringSyntax, chain_steps, apply_steps, function_steps
from ..cfg import Flow
from ..lexmodel import master_for
from ..actions import ActionKinds
from .. import peval

UTILS = 'mindsdb_sql/parser/utils.py'
IDENT = 'mindsdb_sql/parser/ast/select/identifier.py'
STRING_TOKENS = {'QUOTE_STRING': 'quote_string', 'DQUOTE_STRING': 'dquote_string'}
QUOTED_SYMBOLS = {'quote_string', 'dquote_string', 'string', 'QUOTE_STRING', 'DQUOTE_STRING'}


def literal_probes(syn):
    c = syn.delim
    o = '"' if c == "'" else "'"
    inner = ['', 'a', 'a b', 'a.b', o, f'a{o}b', o + o, f'a{o}{o}b', '%', 'é', '\n', '-- x', ';', 'a\\nb' if syn.escape else 'anb']
    if syn.escape:
        inner += ['\\\\', 'a\\\\', '\\' + c, '\\' + c + 'a', 'a\\' + c, '\\\\\\' + c, '\\' + o, '\\\\a', '\\%']
    if syn.doubled:
        inner += [c + c, c + c + 'a', 'a' + c + c, 'a' + c + c + 'b', c + c + c + c]
    if syn.escape and syn.doubled:
        inner += ['\\\\' + c + c, c + c + '\\\\']
    # ... and every body of up to 4 characters over {a, backslash, both quote characters}: lone backslashes at the end, runs of backslashes, mixed forms
    import itertools
    for k in range(1, 5):
        for w in itertools.product('a\\' + c + o, repeat=k):
            inner.append(''.join(w))
    out = []
    seen = set()
    for x in inner:
        lit = c + x + c
        if lit not in seen and syn.accepts(lit):
            seen.add(lit)
            out.append(lit)
    return out


def find_helper(ctx, name, file):
    """(file, FunctionDef) of a helper callable by bare name from `file` (same module or imported from parser.utils)."""
    for f in (file, UTILS):
        for n in ctx.src.tree(f).body:
            if isinstance(n, ast.FunctionDef) and n.name == name:
                return f, n
    return None, None


def eval_callback(fn, item):
    """Partial evaluation of a re.sub callback `def cb(match): item = match.group(0); if ...: return ...` on one match text."""
    mvar = fn.args.args[0].arg
    env = {}

    def ev(e):
        if isinstance(e, ast.Call) and isinstance(e.func, ast.Attribute) and e.func.attr == 'group' and norm(e.func.value) == mvar:
            return item
        if isinstance(e, ast.Subscript) and isinstance(e.value, ast.Call) and isinstance(e.value.func, ast.Attribute) \
                and e.value.func.attr == 'group':
            return item[peval.ev(e.slice, env)]
        return peval.ev(e, env)

    def block(stmts):
        for st in stmts:
            if isinstance(st, ast.Expr) and isinstance(st.value, ast.Constant):
                continue
            if isinstance(st, ast.Assign) and isinstance(st.targets[0], ast.Name):
                env[st.targets[0].id] = ev(st.value)
            elif isinstance(st, ast.If):
                r = block(st.body) if ev(st.test) else block(st.orelse)
                if r is not None:
                    return r
            elif isinstance(st, ast.Return):
                return (ev(st.value),)
            else:
                raise AnalysisError(f'decoder callback: unmodelled statement `{norm(st)}`')
        return None
    r = block(fn.body)
    if r is None:
        raise AnalysisError('decoder callback can fall off its end (returns None into re.sub)')
    return r[0]


def decoder_model(ctx, g, ntname):
    """-> callable(text) computing what the grammar action makes of a token text: the action (and the helpers it calls, wherever they are defined) is
    interpreted on the token text (sa/interp.py, fail closed), so the way the decoder is written does not matter."""
    from ..interp import Interp, Obj, Raised, Env
    prods = g.prods_of(ntname)
    ctx.need(len(prods) == 1 and len(prods[0].rhs) == 1, f'{g.dialect}: nonterminal {ntname} is not a single-token rule')
    fn = prods[0].func
    tok = prods[0].rhs[0]
    info = {'site': (g.file, fn.lineno), 'shape': 'interpreted', 'steps': None}
    # where the decoding is written (for the report): the helper the action calls, if any
    for n in walk_no_nested(fn):
        if isinstance(n, ast.Call) and isinstance(n.func, ast.Name):
            hf, h = find_helper(ctx, n.func.id, g.file)
            if h is not None:
                info.update(helper=f'{hf}:{h.name}', site=(hf, h.lineno))
    it = Interp.for_file(ctx.src, g.file, {}, {})

    def dec(text):
        it.steps = 0
        try:
            out = it.call_function(fn, [Obj('Parser'), {0: text, tok: text}], {}, Env())
        except Raised as r:
            return f'<{r.exc_name}>'
        if not isinstance(out, str):
            raise AnalysisError(f'{g.file}:{fn.lineno}: the action {ntname} does not return text for the token {text!r}')
        return out
    return dec, info


def encoder_model(ctx):
    """Constant.get_string for str values -> callable(value) -> literal text, from the source."""
    model = model_for(ctx.src)
    ci = model.get('Constant')
    fn = ci.methods.get('get_string')
    ctx.need(fn is not None, 'Constant.get_string not found')
    # the printer is interpreted (fail-closed AST interpreter) on a stand-in Constant: robust against the way it is written
    from ..interp import Interp, Obj, Raised, Env
    steps = []
    for n in ast.walk(fn):
        if isinstance(n, ast.Call) and isinstance(n.func, ast.Attribute) and n.func.attr == 'replace':
            root, ch = chain_steps(n)
            if ch and len(ch) > len(steps) and all(not c[0].endswith('?') for c in ch):
                steps = ch
    helpers = {}
    mod = fn
    while getattr(mod, '_parent', None) is not None:
        mod = mod._parent
    for st in getattr(mod, 'body', []):
        if isinstance(st, ast.FunctionDef):
            helpers[st.name] = st

    def enc(v):
        stubs = {}
        for hn, hf in helpers.items():
            stubs[hn] = (lambda f_: (lambda it, *a, **k: it.call_function(f_, list(a), dict(k), Env())))(hf)
        it = Interp.for_file(ctx.src, ci.file, {}, stubs, also=tuple(f for f in ('mindsdb_sql/parser/ast/base.py',) if f != ci.file))
        try:
            out = it.call_function(fn, [Obj('Constant', value=v, with_quotes=True, alias=None, parentheses=False)], {}, Env())
        except Raised as r:
            raise AnalysisError(f'Constant.get_string raises {r.exc_name} for the value {v!r}')
        if not isinstance(out, str):
            raise AnalysisError(f'Constant.get_string does not return text for the value {v!r}')
        return out
    return enc, steps, (ci.file, fn.lineno)


VALUE_PROBES = ['', 'a', "'", '\\', 'a\\', "\\'", "''", '\\\\', '"', "it's", 'a\\nb', "a'b\\c", '%', ':x', '--', ';', '\n',
                "' OR 1=1 -- ", "\\' OR 1=1 -- ", 'é', ' lead', 'trail ', '`', '$$', '/*x*/']


def check_strings(ctx):
    enc, enc_steps, enc_site = encoder_model(ctx)
    ctx.extra['encoder_steps'] = [list(s) for s in enc_steps]
    for d in DIALECTS:
        g = load_dialect(ctx.src, d)
        lex = g.lexer
        for tok, nt in STRING_TOKENS.items():
            r = lex.rule(tok)
            ctx.need(r is not None, f'{d}: lexer has no {tok} rule')
            syn = StringSyntax(r.pattern, lex.reflags)
            # the lexer action must not rewrite the value (the grammar action is the decoder)
            rewrites = r.func is not None and any(isinstance(n, ast.Attribute) and n.attr == 'value' and isinstance(n.ctx, ast.Store)
                                                   for n in ast.walk(r.func))
            dec, info = decoder_model(ctx, g, nt)
            ctx.count('string_decoders')
            if rewrites:
                ctx.ob('C04.decoder', f'{d}:{tok}:lexer-rewrites', False,
                       f'{d}: the lexer action of {tok} rewrites the token value before the grammar action decodes it: escapes are '
                       f'decoded twice / the analysis cannot compose the two', file=lex.file, line=r.line)
                continue
            probes = literal_probes(syn)
            ctx.count('literal_probes', len(probes))
            bad = []
            for lit in probes:
                want = syn.reference_decode(lit)
                try:
                    got = dec(lit)
                except AnalysisError:
                    raise
                except Exception as e:       # decoding model failed on data
                    got = f'<{type(e).__name__}>'
                if got != want:
                    bad.append((lit, want, got))
            ctx.ob('C04.decoder', f'{d}:{tok}', not bad,
                   f'{d}: the text {bad[0][0]!r} is accepted as one {tok} token and denotes {bad[0][1]!r}, but the grammar action '
                   f'`{nt}` ({info.get("helper") or "inline"}) '
                   f'yields {bad[0][2]!r}' if bad else '', file=info['site'][0], line=info['site'][1],
                   witness=f'select {bad[0][0]}' if bad else None)
            if tok == 'QUOTE_STRING':
                # encoder (printer) against this dialect's own literal syntax
                badv = []
                for v in VALUE_PROBES:
                    lit = enc(v)
                    if not syn.accepts(lit):
                        badv.append((v, lit, 'is not one string token'))
                    elif syn.reference_decode(lit) != v:
                        badv.append((v, lit, f'reads back as {syn.reference_decode(lit)!r}'))
                ctx.count('value_probes', len(VALUE_PROBES))
                ctx.ob('C04.encoder-covers-specials', f'{d}:Constant.get_string', not badv,
                       f'{d}: Constant({badv[0][0]!r}) prints {badv[0][1]} which, under the {d} lexer\'s own {tok} syntax, {badv[0][2]}'
                       if badv else '', file=enc_site[0], line=enc_site[1], witness=f'Constant({badv[0][0]!r}).to_string()' if badv else None)


def check_variables(ctx):
    """VARIABLE / SYSTEM_VARIABLE: the name the grammar extracts from each alternative of the token pattern."""
    model = model_for(ctx.src)
    vci = model.get('Variable')
    gs = vci.methods.get('get_string')
    for d in ('mindsdb', 'mysql'):
        g = load_dialect(ctx.src, d)
        lex = g.lexer
        for tok in ('VARIABLE', 'SYSTEM_VARIABLE'):
            r = lex.rule(tok)
            if r is None:
                continue
            sigil = '@@' if tok == 'SYSTEM_VARIABLE' else '@'
            # decoder = the lexer action of the token (if it has one), then the helper the grammar action applies to the token value (if any); both interpreted
            helper = None
            for p in [p for p in g.productions[1:] if p.rhs == (tok,)]:
                for n in ast.walk(p.func):
                    if isinstance(n, ast.Call) and isinstance(n.func, ast.Name) and n.args and norm(n.args[0]) in (f'p.{tok}', 'p[0]'):
                        hf_, h_ = find_helper(ctx, n.func.id, g.file)
                        if h_ is not None:
                            helper = (hf_, h_)
            ctx.need(r.func is not None or helper is not None, f'{d}: decoder of {tok} not found')
            hf, fn = (lex.file, r.func) if helper is None else helper

            def decode(text, helper=helper, lexfn=r.func, lexfile=lex.file):
                from ..interp import Interp, Obj, Raised, Env
                try:
                    v = text
                    if lexfn is not None:
                        tokobj = Obj('Token', value=text, type=tok, lineno=1, index=0, end=len(text))
                        out = Interp.for_file(ctx.src, lexfile, {}, {}).call_function(lexfn, [Obj('Lexer'), tokobj], {}, Env())
                        out = out if out is not None else tokobj
                        v = out.value if isinstance(out, Obj) else out
                    if helper is not None:
                        v = Interp.for_file(ctx.src, helper[0], {}, {}).call_function(helper[1], [v], {}, Env())
                    return v
                except Raised as r_:
                    return f'<raises {r_.exc_name}>'
            probes = []
            for name in ['a', 'a.b', 'A_b$', 'x y', 'a-b', "it's", 'q"q', 'b`t', '@x', 'x@', "x'", 'a.b c', 'v1x', 'a1', '_9', 'a$b', 'x.y2', 'A', '1a']:
                for form in (name, f"'{name}'", f'"{name}"', f'`{name}`'):
                    text = sigil + form
                    if re.fullmatch(r.pattern, text, lex.reflags):
                        want = name
                        probes.append((text, want))
            bad = []
            for text, want in probes:
                got = decode(text)
                if got != want:
                    bad.append((text, want, got))
            ctx.count('variable_decoders')
            ctx.count('variable_probes', len(probes))
            ctx.ob('C04.variable-decoder', f'{d}:{tok}', not bad,
                   f'{d}: `{bad[0][0]}` is one {tok} token naming {bad[0][1]!r}, but the decoder yields {bad[0][2]!r}' if bad else '',
                   file=hf, line=fn.lineno, witness=f'select {bad[0][0]}' if bad else None)
            # printer: Variable.get_string must produce text that lexes back to the same token & name (mindsdb reference)
            if d == 'mindsdb' and gs is not None:
                enc = variable_encoder(ctx, vci)
                badp = []
                for name in ['a', 'a.b', 'x y', 'a-b', '1a', "it's", 'v1x', 'a1', '_9', 'a$b', 'x.y2', 'A']:
                    # only names some spelling of the token can express (a Variable the parser can produce)
                    if any(name == w for t, w in probes):
                        text = enc(name, tok == 'SYSTEM_VARIABLE')
                        ok = re.fullmatch(r.pattern, text, lex.reflags) and decode(text) == name and master_for(lex).types(text) == [tok]
                        if not ok:
                            badp.append((name, text))
                ctx.ob('C04.variable-encoder', f'{tok}', not badp,
                       f'Variable({badp[0][0]!r}) prints `{badp[0][1]}`, which the lexer does not read back as that variable' if badp else '',
                       file=vci.file, line=gs.lineno, witness=f"select @`{badp[0][0]}`" if badp else None)


def node_printer(ctx, ci, method='get_string'):
    """-> callable(**attributes) -> the text `method` of the AST class prints for a node with these attributes: the method (with the helpers and module constants
    of its file and the methods of ASTNode) is interpreted on a stand-in (sa/interp.py, fail closed)"""
    from ..interp import Interp, Obj, Raised, Env
    fn = ci.methods.get(method)
    ctx.need(fn is not None, f'{ci.name}.{method} not found')
    also = tuple(f for f in ('mindsdb_sql/parser/ast/base.py',) if f != ci.file)

    def pr(**attrs):
        a = dict(alias=None, parentheses=False)
        a.update(attrs)
        it = Interp.for_file(ctx.src, ci.file, {}, {}, also=also)
        try:
            out = it.call_function(fn, [Obj(ci.name, **a)], {}, Env())
        except Raised as r:
            raise AnalysisError(f'{ci.name}.{method} raises {r.exc_name} for {attrs!r}')
        if not isinstance(out, str):
            raise AnalysisError(f'{ci.name}.{method} does not return text for {attrs!r}')
        return out
    return pr


def variable_encoder(ctx, vci):
    """Variable.get_string interpreted: (name, is_system_var) -> printed text"""
    pr = node_printer(ctx, vci)
    return lambda name, is_sys: pr(value=name, is_system_var=is_sys)


def check_word_atomic(ctx):
    """A maximal run of identifier characters is ONE token: the ordered first-match lexer is simulated on every word of up to 5 characters over a reduced
    identifier alphabet (a letter, the exponent letter, a digit, `_`, `$`); a word read as two tokens changes the name the user wrote into a number and an alias."""
    import itertools
    for d in DIALECTS:
        g = load_dialect(ctx.src, d)
        lex = g.lexer
        idr = lex.rule('ID')
        ctx.need(idr is not None, f'{d}: no ID token')
        m = master_for(lex)
        alphabet = [c for c in 'ae1_$' if re.fullmatch(idr.pattern, 'a' + c, lex.reflags)]
        ctx.need(len(alphabet) >= 3, f'{d}: the ID pattern does not accept words over letters and digits')
        bad = []
        n = 0
        for k in range(1, 6):
            for w in itertools.product(alphabet, repeat=k):
                word = ''.join(w)
                n += 1
                try:
                    ts = m.types(word)
                except Exception:
                    ts = ['<lex error>']
                if len(ts) != 1:
                    bad.append((word, ts))
        ctx.count('atomic_words', n)
        ctx.ob('C04.word-atomic', d, not bad,
               f'{d}: the word `{bad[0][0]}` (identifier characters only, no white space) is read as {len(bad[0][1])} tokens {bad[0][1]}: the name the user wrote is '
               f'split ({len(bad)} such words up to 5 characters over {alphabet})' if bad else '', file=lex.file, line=idr.line,
               witness=f'select {bad[0][0]} from t' if bad else None)


def check_entry_text(ctx):
    """The text the lexer receives is the caller's text: parse_sql is interpreted with recording stand-ins for the lexer and the parser on statements that carry
    literals and quoted names with every kind of content; what reaches `tokenize` must be the statement with only white space / semicolons removed at its ends.
    A rewrite of the whole text before tokenisation knows nothing of token boundaries and changes the content of literals and quoted names."""
    from ..interp import Interp, Obj, Raised, Env
    INIT = 'mindsdb_sql/__init__.py'
    fn = next((n for n in ctx.src.tree(INIT).body if isinstance(n, ast.FunctionDef) and n.name == 'parse_sql'), None)
    ctx.need(fn is not None, 'parse_sql not found')
    seen = []

    class Lex:
        _interp_safe = True
        text = None

        def tokenize(self, text, *a, **k):
            seen.append(text)
            self.text = text
            return iter(())

    class Par:
        _interp_safe = True
        error_info = None

        def parse(self, tokens):
            return 'AST'
    contents = VALUE_PROBES + [unicode_probe().replace("'", '').replace('`', '').replace('"', '').replace('\n', ' '), '10\xa0000\xa0EUR', 'a\u2003b', 'tab\tin', 'two  spaces', 'MiXed Case', 'x\u200by', 'a\r\nb', '\x0c', 'a;;b', ' ; ',
                               # statement-end look-alikes inside a literal / name / comment: a semicolon followed by what reads as a comment up to the end of the text
                               '%; -- %', 'BEGIN; /* start', 'x;--', 'a; /* b */ c', ';#', 'end; ']
    n = 0
    for c in contents:
        for stmt in (f"select '{c}' from t", f"select `{c}` from t", f'select "{c}" as "{c}"', f"select 1 -- {c}\n from t"):
            for tail in ('', ';', ' ;\n', '\n\n', ' /* nightly */'):
                text = stmt + tail
                for d in DIALECTS:
                    del seen[:]
                    it = Interp.for_file(ctx.src, INIT, {}, {'get_lexer_parser': lambda *a, **k: (Lex(), Par())})
                    n += 1
                    try:
                        it.call_function(fn, [text, d], {}, Env())
                    except Raised as r:
                        seen.append(f'<raises {r.exc_name}>')
                    got = seen[0] if seen else None
                    ok = False
                    if isinstance(got, str) and got and not got.startswith('<raises') and got in text:
                        i = text.index(got)
                        ok = not text[:i].strip() and not text[i + len(got):].strip(' \t\r\n\f\v;') and stmt.strip() in got
                    ctx.ob('C04.entry-text', f'{d}:{stmt!r}{tail!r}', ok,
                           f'parse_sql({text!r}, {d!r}) hands the lexer {got!r}: the statement is rewritten before it is tokenised, so the content of literals and quoted '
                           f'names is no longer what the caller wrote', file=INIT, line=fn.lineno, witness=text)
    ctx.count('entry_text_probes', n)


def unicode_probe():
    """a text with every ASCII character and representatives of every Unicode general category (all of the small categories that look like SQL punctuation:
    initial / final quotes, spaces, dashes, format characters)"""
    import unicodedata
    per = {}
    whole = {'Pi', 'Pf', 'Zs', 'Zl', 'Zp', 'Pd', 'Cf'}
    for cp in range(0x80, 0x3000):
        ch = chr(cp)
        cat = unicodedata.category(ch)
        if cat in ('Cs', 'Co', 'Cn', 'Cc'):
            continue
        if cat in whole or len(per.get(cat, [])) < 3:
            per.setdefault(cat, []).append(ch)
    return ''.join(chr(c) for c in range(32, 127)) + '\t\n' + ''.join(''.join(v) for _, v in sorted(per.items()))


def check_lexer_entry(ctx, rule='C04.entry-text'):
    """A lexer class that overrides `tokenize` stands between parse_sql and sly's tokenizer: the override is interpreted with the inherited tokenize standing in
    as a recorder; what it hands on must be the text it was given, character for character (a probe with every ASCII character and representatives of every
    Unicode category, among them all quote-like, space-like and dash-like characters): a translation of the whole text also rewrites literals and quoted names."""
    from ..interp import Interp, Obj, Raised, Env
    from ..grammar import dialect_classes
    n = 0
    classes = dialect_classes(ctx.src)
    probe = "select 'a' " + unicode_probe() + " -- x"
    for d in DIALECTS:
        (lmod, lcls), _ = classes[d]
        file = lmod.replace('.', '/') + '.py'
        seen = set()
        todo = [(file, lcls)]
        while todo:
            f, cn = todo.pop()
            if (f, cn) in seen or not ctx.src.exists(f):
                continue
            seen.add((f, cn))
            tree = ctx.src.tree(f)
            cls = next((x for x in tree.body if isinstance(x, ast.ClassDef) and x.name == cn), None)
            if cls is None:
                continue
            for b in cls.bases:
                bn = dotted(b)
                if bn is None:
                    continue
                for st in ast.walk(tree):
                    if isinstance(st, ast.ImportFrom) and st.module and st.module.startswith('mindsdb_sql') and any((a.asname or a.name) == bn.split('.')[-1] for a in st.names):
                        todo.append((st.module.replace('.', '/') + '.py', bn.split('.')[-1]))
                todo.append((f, bn.split('.')[-1]))
            for meth in [m for m in cls.body if isinstance(m, ast.FunctionDef) and m.name == 'tokenize']:
                got = []
                it = Interp.for_file(ctx.src, f, {}, {'super().tokenize': lambda it_, text, *a, **k: (got.append(text), iter(()))[1]})
                n += 1
                try:
                    it.call_function(meth, [Obj(cn, text=None, index=0, lineno=1), probe], {}, Env())
                except Raised as r_:
                    got.append(f'<raises {r_.exc_name}>')
                ok = got == [probe]
                diff = ''
                if not ok and got and isinstance(got[0], str) and len(got[0]) == len(probe):
                    diff = ', '.join(f'U+{ord(a_):04X}->U+{ord(b_):04X}' for a_, b_ in zip(probe, got[0]) if a_ != b_)[:120]
                ctx.ob(rule, f'{d}:{cn}.tokenize', ok,
                       f'{d}: {cn}.tokenize does not hand the text it is given to the tokenizer unchanged ({diff or [g_[:40] for g_ in got]}): the characters are rewritten inside '
                       f'string literals, quoted names and embedded queries too', file=f, line=meth.lineno, witness="select '\u201cDune\u201d'")
    ctx.setcount('lexer_tokenize_overrides', n)
    ctx.ob(rule, 'lexer-tokenize:all', True, '')


def check_identifier_paths(ctx):
    """path_str_to_parts splits at dots: it may only receive ID token text (which still carries its back-quotes); values of
    quote_string / dquote_string are already unquoted - dots inside them are content.  Also: no case change between the token
    text and Identifier.parts."""
    model = model_for(ctx.src)
    nsites = 0
    for d in DIALECTS:
        g = load_dialect(ctx.src, d)
        from ..actions import kinds_for
        ak = kinds_for(ctx.src, d)
        numeric = {nt for nt, v in ak.nt.items() if v.kinds and set(v.kinds) <= {'int', 'float', 'ext:Decimal'}}
        ctx.need({'integer', 'float'} <= numeric, f'{d}: the integer / float nonterminals are not recognised as numeric ({sorted(numeric)})')
        for p in g.productions[1:]:
            if p.func is None or p.from_star:
                continue
            fn = p.func
            pvar = fn.args.args[1].arg
            # taint: local name -> set of grammar symbols / 'case'
            def sources(e, st):
                out = set()
                for x in ast.walk(e):
                    if isinstance(x, ast.Attribute) and isinstance(x.value, ast.Name) and x.value.id == pvar and x.attr in p.names:
                        out.add(p.rhs[p.names[x.attr]])
                    elif isinstance(x, ast.Subscript) and isinstance(x.value, ast.Name) and x.value.id == pvar \
                            and isinstance(x.slice, ast.Constant) and isinstance(x.slice.value, int) and 0 <= x.slice.value < len(p.rhs):
                        out.add(p.rhs[x.slice.value])
                    elif isinstance(x, ast.Name) and x.id in st:
                        out |= st[x.id]
                    elif isinstance(x, ast.Call) and isinstance(x.func, ast.Attribute) and x.func.attr in ('lower', 'upper', 'title', 'capitalize', 'casefold'):
                        out.add('#case')
                    elif isinstance(x, ast.Call) and dotted(x.func) == 'getattr' and len(x.args) >= 2 and norm(x.args[0]) == pvar \
                            and const_str(x.args[1]) in p.names:
                        out.add(p.rhs[p.names[x.args[1].value]])
                    elif isinstance(x, ast.Call) and dotted(x.func) in ('str', 'repr', 'format') and x.args and sources(x.args[0], st) & numeric:
                        out.add('#renumbered')
                    elif isinstance(x, ast.FormattedValue) and sources(x.value, st) & numeric:
                        out.add('#renumbered')
                return out

            def transfer(s, st):
                st = dict(st)
                if isinstance(s, ast.Assign) and isinstance(s.targets[0], ast.Name):
                    st[s.targets[0].id] = sources(s.value, st)
                nodes = ast.walk(s) if not isinstance(s, (ast.If, ast.For, ast.While, ast.Try, ast.With)) else ast.walk(
                    getattr(s, 'test', None) or getattr(s, 'iter', None) or ast.Pass())
                for n in nodes:
                    if isinstance(n, ast.Call):
                        dn = dotted(n.func) or ''
                        arg = None
                        kind = None
                        if dn in ('Identifier.from_path_str', 'path_str_to_parts') and n.args:
                            arg, kind = n.args[0], 'split'
                        elif dn == 'Identifier' and n.args:
                            arg, kind = n.args[0], 'split'
                        elif dn == 'Identifier':
                            for k in n.keywords:
                                if k.arg == 'path_str':
                                    arg, kind = k.value, 'split'
                                elif k.arg == 'parts':
                                    arg, kind = k.value, 'parts'
                        elif isinstance(n.func, ast.Attribute) and n.func.attr in ('append', 'extend', 'insert') and n.args \
                                and isinstance(n.func.value, ast.Attribute) and n.func.value.attr == 'parts':
                            arg, kind = n.args[-1], 'parts'
                        if arg is None:
                            continue
                        src = sources(arg, st)
                        ctx.count('identifier_spelling_sites')
                        ctx.ob('C04.identifier-spelling', f'{d}:{fn.name}:{norm(n)[:50]}:{p}'[:160], '#renumbered' not in src,
                               f'{d}: action `{fn.name}` for `{p}` makes a part of a name from the re-printed value of a number (`{norm(n)[:70]}`): the digits the '
                               f'user wrote are not kept (`t.007` becomes the name `7`)', file=g.file, line=n.lineno, witness='select t.007 from t')
                        if kind == 'split':
                            ctx.count('identifier_split_sites')
                            q = src & QUOTED_SYMBOLS
                            ctx.ob('C04.split-only-unquoted', f'{d}:{fn.name}:{norm(n)[:50]}:{p}'[:160], not q,
                                   f'{d}: action `{fn.name}` for `{p}` passes the already-unquoted value of {sorted(q)} to the dot-splitting '
                                   f'path parser (`{norm(n)[:60]}`): a dot inside a quoted name is content, not a separator',
                                   file=g.file, line=n.lineno, witness='select 1 as "a.b"')
                        ctx.count('identifier_case_sites')
                        ctx.ob('C04.identifier-case', f'{d}:{fn.name}:{norm(n)[:50]}:{p}'[:160], '#case' not in src,
                               f'{d}: action `{fn.name}` changes the letter case of a name before it becomes Identifier.parts '
                               f'(`{norm(n)[:70]}`)', file=g.file, line=n.lineno)
                return st

            def cond(test, st, branch):
                f = ak.fold(test, p, pvar)
                if f is not None and f != branch:
                    return None
                return st

            def join(a, b):
                return {k: a.get(k, set()) | b.get(k, set()) for k in set(a) | set(b)}
            Flow(transfer, join, cond).run(fn, {})
            nsites += 1
    ctx.setcount('actions_scanned_for_identifiers', nsites)
    # the `id` nonterminal hands the token text to the path parser: it must be passed on untouched, because the back-quotes
    # are the only record of which dots are content
    for d in DIALECTS:
        g = load_dialect(ctx.src, d)
        seen = set()
        for p in g.prods_of('id'):
            if id(p.func) in seen:
                continue
            seen.add(id(p.func))
            # decided by interpretation: the action, called with the token text as sly hands it over, gives that text back
            from ..interp import Interp as _I, Obj as _O, Raised as _R, Env as _E
            from ..grammar import prod_record as _pr
            for text in ('`a.b`', 'Plain', '`Mixed Case`', 'x1'):
                try:
                    got = _I.for_file(ctx.src, g.file, {}, lexer_token_stubs(ctx)).call_function(p.func, [_O('Parser'), _pr(p, [text])], {}, _E())
                except _R as r_:
                    got = f'<raises {r_.exc_name}>'
                ctx.ob('C04.id-text-intact', f'{d}:id:{p.func.name}:{text}', got == text,
                       f'{d}: the `id` action gives {got!r} for the token text {text!r} instead of the untouched text: quoting information '
                       f'(back-quotes) is lost before path_str_to_parts decides where to split, so a dot inside a quoted name '
                       f'becomes a separator', file=g.file, line=p.func.lineno, witness='select `a.b` from t')
    # path_str_to_parts itself keeps back-quoted segments whole and does not touch case
    tree = ctx.src.tree(IDENT)
    fn = None
    for n in tree.body:
        if isinstance(n, ast.FunctionDef) and n.name == 'path_str_to_parts':
            fn = n
    ctx.need(fn is not None, 'path_str_to_parts not found')
    cases = [('a.b', ['a', 'b']), ('`a.b`.c', ['a.b', 'c']), ('A.B', ['A', 'B']), ('`x y`', ['x y']), ('a.`b.c`.d', ['a', 'b.c', 'd']), ('abc', ['abc']),
             ('`a`.`B c`', ['a', 'B c']), ('a1.$b', ['a1', '$b']),
             # a quoted part is a name whatever it spells: an operator character, a keyword, digits
             ('`*`', ['*']), ('t.`*`', ['t', '*']), ('`select`', ['select']), ('`1`', ['1']), ("`a'b`.`-`", ["a'b", '-']), ('`NULL`.x', ['NULL', 'x']),
             # blanks inside the quotes belong to the name (` a` and `a` are two different columns)
             ('` a`', [' a']), ('`a `.b', ['a ', 'b']), ('t.` `', ['t', ' ']), ('`a\tb `', ['a\tb '])]
    from ..interp import Interp, Raised, Env
    for text, want in cases:
        try:
            got = Interp.for_file(ctx.src, IDENT, {}, {}).call_function(fn, [text], {}, Env())
            got = list(got) if isinstance(got, (list, tuple)) else repr(got)
        except Raised as r_:
            got = f'<raises {r_.exc_name}>'
        ctx.ob('C04.path-split', text, got == want,
               f'path_str_to_parts({text!r}) gives {got}, expected {want}: names are split only at unquoted dots and keep their case',
               file=IDENT, line=fn.lineno)


def lexer_token_stubs(ctx):
    """stand-ins for `<LexerClass>.tokens` as identifier.py uses them: the statically extracted token sets of the lexer classes it imports"""
    from ..grammar import _SetEval, _module_of
    tree = ctx.src.tree(IDENT)
    se = _SetEval(ctx.src)
    stubs = {}
    for n in ast.walk(tree):
        if isinstance(n, ast.ImportFrom) and n.module and 'lexer' in n.module:
            for a in n.names:
                try:
                    stubs[f'{a.asname or a.name}.tokens'] = set(se.lexer_tokens(_module_of(ctx.src, n.module), a.name))
                except Exception:
                    pass
    return stubs


def identifier_printer(ctx):
    """Identifier.parts_to_str interpreted (fail-closed AST interpreter): callable(list of parts) -> printed text.  The reserved words are whatever
    get_reserved_words computes from the statically extracted token sets of the lexer classes it names."""
    from ..interp import Interp, Obj, Raised, Env
    from ..grammar import _SetEval, _module_of
    tree = ctx.src.tree(IDENT)
    cls = next((n for n in tree.body if isinstance(n, ast.ClassDef) and n.name == 'Identifier'), None)
    ctx.need(cls is not None, 'identifier.py: class Identifier not found')
    fn = next((m for m in cls.body if isinstance(m, ast.FunctionDef) and m.name == 'parts_to_str'), None)
    ctx.need(fn is not None, 'Identifier.parts_to_str not found')
    se = _SetEval(ctx.src)
    stubs = {}
    for n in ast.walk(tree):
        if isinstance(n, ast.ImportFrom) and n.module and 'lexer' in n.module:
            for a in n.names:
                try:
                    stubs[f'{a.asname or a.name}.tokens'] = set(se.lexer_tokens(_module_of(ctx.src, n.module), a.name))
                except Exception:
                    pass
    methods = {'Identifier': {m.name: m for m in cls.body if isinstance(m, ast.FunctionDef)}}

    def enc(parts):
        it = Interp({'Star': set()}, stubs, methods=methods)
        it.module = tree
        try:
            out = it.call_function(fn, [Obj('Identifier', parts=list(parts), alias=None, parentheses=False)], {}, Env())
        except Raised as r:
            raise AnalysisError(f'Identifier.parts_to_str raises {r.exc_name} for parts {parts!r}')
        if not isinstance(out, str):
            raise AnalysisError(f'Identifier.parts_to_str does not return text for parts {parts!r}')
        return out
    return enc, fn


def check_identifier_encoder(ctx):
    """Identifier.parts_to_str must quote every part the ID pattern cannot read back bare; evaluated on probe parts with the
    regex read from the source and the mindsdb lexer."""
    from ..lexmodel import master_for, master_for
    g = load_dialect(ctx.src, 'mindsdb')
    master = master_for(g.lexer)
    enc, encfn = identifier_printer(ctx)
    probes = ['a', 'A1', '_x', 'x y', 'a.b', '1a', 'a-b', 'a$b', '$a', 'not$a', 'in$x', 'é', 'café', 'цена', '名前', 'a b', "a'b", 'a"b', 'select', 'Select', 'from',
              'x1', 'a_1', 'ab$', '9', 'a;b', 'a--b', 'a/*b', 'true', 'null', '*', '-', '?']
    bad = []
    for part in probes:
        text = enc([part])
        toks = master.types(text)
        quoted = text.startswith('`') and text.endswith('`') and len(text) >= 2
        decoded = text[1:-1] if quoted else text
        if toks != ['ID'] or decoded != part:
            bad.append((part, text, toks))
        ctx.count('identifier_encoder_probes')
    # two-part names: the separator is a dot outside the quotes
    for parts in (['a', 'b'], ['x y', 'c'], ['select', 'from']):
        text = enc(parts)
        toks = master.types(text)
        if toks != ['ID', 'DOT', 'ID']:
            bad.append(('.'.join(parts), text, toks))
    ctx.ob('C04.identifier-encoder', 'Identifier.parts_to_str', not bad,
           f'an identifier part {bad[0][0]!r} is printed as `{bad[0][1]}`, but that text lexes to {bad[0][2]} rather than one ID token holding the part: the printed '
           f'statement does not read back (further: {[b[0] for b in bad[1:6]]})' if bad else '', file=IDENT, line=encfn.lineno,
           witness=f'select `{bad[0][0]}` from t' if bad else None)
    ctx.note('an identifier part that contains a back-quote cannot be written in any form the ID pattern reads back (limitation of the '
             'token grammar: the pattern has no escape for `) - listed, not a violation of an encoder/decoder disagreement')
    ctx.note('an empty identifier part prints as `` which the ID pattern (`[^`]+`) does not accept - listed')


def check_id_text_decoded(ctx):
    """The `id` nonterminal hands the token text on as it was written - a back-quoted name still carries its quotes.  Every action that turns such a text into a name
    (Identifier) must take the quotes off (Identifier(path_str) / the path decoder): an Identifier whose `parts` still hold a back-quote is printed with the quotes
    doubled (``a b``), which is not the name and does not lex.  Every action with `id` / `column_list` in its production that builds an Identifier is interpreted
    (real Identifier constructor) with a back-quoted id."""
    from ..interp import Interp, Obj, Raised, Env
    from ..grammar import prod_record
    from ..lexmodel import spelling
    n = nskip = 0
    for d in DIALECTS:
        g = load_dialect(ctx.src, d)
        ast_files = tuple(sorted(f for f in ctx.src.py_files('mindsdb_sql/parser') if '/ast/' in f))
        tok_stubs = lexer_token_stubs(ctx)
        for p_ in g.productions[1:]:
            if p_.from_star or p_.func is None or not ({'id', 'column_list'} & set(p_.rhs)) or p_.name in ('id', 'column_list'):
                continue
            if not any(isinstance(x, ast.Call) and dotted(x.func) == 'Identifier' for x in ast.walk(p_.func)):
                continue

            def ident(name):
                return Obj('Identifier', parts=[name], alias=None, parentheses=False)
            values = []
            for s_ in p_.rhs:
                if s_ == 'id':
                    values.append('`a b`')
                elif s_ == 'column_list':
                    values.append(['`c d`', 'e'])
                elif s_ in g.tokens:
                    values.append(spelling(g.lexer, s_) or s_)
                elif s_ == 'identifier':
                    values.append(ident('n'))
                elif s_ in ('query', 'select', 'union'):
                    values.append(Obj('Select', targets=[ident('x'), ident('y')], alias=None, parentheses=False, from_table=None, where=None, cte=None))
                elif s_ == 'raw_query':
                    values.append([Obj('Token', type='SELECT', value='select', index=0, end=6, lineno=1)])
                elif s_ == 'kw_parameter_list':
                    values.append({'k': 1})
                else:
                    values.append(None)
            stubs = dict(tok_stubs)
            stubs['tokens_to_string'] = lambda it, toks: 'select'
            it = Interp.for_file(ctx.src, g.file, {'Select': set(), 'Identifier': set()}, stubs, also=ast_files)
            label = f'{d}:[{p_}]'
            try:
                node = it.call_function(p_.func, [Obj('Parser'), prod_record(p_, values)], {}, Env())
            except Raised as r:
                if r.exc_name != 'ParsingException':
                    nskip += 1
                continue
            except (AnalysisError, TypeError, ValueError, AttributeError, KeyError, IndexError) as e:
                ctx.note(f'{label}: not interpretable on stand-in values ({type(e).__name__}: {str(e)[:80]})')
                nskip += 1
                continue
            n += 1
            bad, seen, todo = [], set(), [node] + values
            while todo:
                x = todo.pop()
                if id(x) in seen:
                    continue
                seen.add(id(x))
                if isinstance(x, Obj):
                    if x.kind == 'Identifier' and any(isinstance(pt, str) and '`' in pt for pt in (x.attrs.get('parts') or [])):
                        bad.append(list(x.attrs['parts']))
                    todo.extend(x.attrs.values())
                elif isinstance(x, (list, tuple)):
                    todo.extend(x)
                elif isinstance(x, dict):
                    todo.extend(x.values())
            ctx.ob('C04.id-text-decoded', label, not bad,
                   f'{label}: with the back-quoted name `a b` the action builds an Identifier with the parts {bad[0] if bad else ""} - the quotes of the token text are '
                   f'kept as part of the name, so the name is not the one written and is printed as ``a b``', file=g.file, line=p_.func.lineno,
                   witness='select * from (select 1) as `a b`')
    ctx.setcount('id_to_identifier_actions', n)
    ctx.floor('id_to_identifier_actions', 3)


def run(ctx):
    ctx.explanation = (
        'Agreement of finite tables, statically extracted: for each dialect and each quoted-string token the literal syntax the '
        'lexer pattern admits (delimiter, backslash escapes, doubled delimiter) is derived from the pattern; the decoder - the '
        'grammar action with the helpers it calls, interpreted by the fail-closed AST interpreter sa/interp.py on the token text, nothing '
        'is imported or executed - is compared, on a generated family of accepted literals covering every escape form and '
        'their combinations, with the reference SQL denotation (sequential global replaces and strip() of delimiters fail on members of '
        'that family). The encoder Constant.get_string (interpreted the same way) is compared '
        'with each dialect\'s own literal syntax on value probes (quotes, backslashes, comment markers ...). Same for @variables '
        '(decoder per pattern alternative, printer read-back), identifier paths (dot-splitting only on ID text - provenance over '
        'every grammar action and production; no case change) and the identifier printer. NOT decided: equality for all '
        'strings (the probe family is finite), numeric values (covered structurally by C02.R4/R5).')
    ctx.not_decided = ['value equality for ALL strings (a finite representative family of escape forms is evaluated)',
                       'numeric literal values (int()/float() totality is C02.R4)']
    ctx.assumptions = ['reference denotation of a literal: backslash escapes \\\\ \\\' \\" and doubled delimiters, unknown escapes '
                       'keep their backslash (the library\'s own rule)']
    check_strings(ctx)
    check_variables(ctx)
    check_identifier_paths(ctx)
    check_word_atomic(ctx)
    check_entry_text(ctx)
    check_lexer_entry(ctx)
    # numeric constants: the printer's text is one numeric literal of the library's own lexer that converts back to exactly the value (C07's table)
    from .. import core
    from . import C07
    sub = core.Ctx('C07', ctx.src, ctx.tier)
    C07.check_number_printer(sub)
    ctx.setcount('number_probes', sub.counts.get('number_probes', 0))
    ctx.ob('C04.number-printer', 'all', True, '')
    for f in sub.findings:
        ctx.ob('C04.number-printer', f.construct, False, f.msg, file=f.file, line=f.line, witness=f.witness)
    check_identifier_encoder(ctx)
    check_id_text_decoded(ctx)
    ctx.sample({'value_probes': VALUE_PROBES[:10]})
    ctx.floor('string_decoders', 6)
    ctx.floor('entry_text_probes', 1000)
    ctx.floor('literal_probes', 100)
    ctx.floor('variable_decoders', 4)
    ctx.floor('variable_probes', 60)
    ctx.floor('identifier_split_sites', 12)
    ctx.floor('actions_scanned_for_identifiers', 900)
