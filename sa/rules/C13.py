"""C13 - the AST walker visits every table, expression and subquery once, in order.

Exhaustiveness of a hand-written isinstance chain over a finite class x field matrix.
"""
import ast

from ..source import AnalysisError, norm, dotted
from ..pymodel import model_for, FieldUse, PrinterOrder, printer_method
from ..walker import walker_for, ancestors
from ..grammar import load_dialect, DIALECTS

# statement kinds the walker is documented to accept (README + its own branches); roots of the closure
STATEMENT_CLASSES = ['Select', 'Union', 'Intersect', 'Except', 'Insert', 'Update', 'Delete', 'CreateTable']
STATEMENT_NONTERMINALS = ['select', 'union', 'insert', 'update', 'delete', 'create_table']

# reference: positions that are *table* positions / *target* positions (the property statement's vocabulary)
TABLE_POSITIONS = {('Select', 'from_table'), ('Join', 'left'), ('Join', 'right'), ('Insert', 'table'),
                   ('Update', 'table'), ('Delete', 'table'), ('CreateTable', 'name')}
TARGET_POSITIONS = {('Select', 'targets')}

# child-carrying fields that are names, not table/expression/subquery positions - one reason each
EXEMPT = {
    ('*', 'alias'): 'an alias is an output name (printed after AS), not an expression position',
    ('CommonTableExpression', 'name'): 'the name a CTE defines',
    ('CommonTableExpression', 'columns'): 'column names a CTE defines',
    ('NativeQuery', 'integration'): 'names the integration of a raw query; the NativeQuery node itself is visited as the table',
    ('Update', 'from_select_alias'): 'the alias of the FROM (select) of an UPDATE',
    ('Select', 'limit'): 'the grammar admits only an integer constant after LIMIT',
    ('Select', 'offset'): 'the grammar admits only an integer constant after OFFSET',
}


def exempt(cls, field):
    return EXEMPT.get((cls, field)) or EXEMPT.get(('*', field))


def child_fields(model, ci):
    """field -> shapes for which a node method is called in the class's own tree/SQL printers."""
    out = {}
    seen = set()
    for meth in ('to_tree', 'get_string', 'to_string'):
        c, fn = model.method(ci, meth)
        if fn is None or c.name == 'ASTNode' or id(fn) in seen:
            continue
        seen.add(id(fn))
        fu = FieldUse(fn, 'self', model, ci)
        for k, v in fu.child_fields.items():
            out.setdefault(k, set()).update(v)
    return out


def constructed_classes(g, model, ast_names):
    """nonterminal -> AST classes constructed in its actions (syntactic)."""
    out = {}
    for p in g.productions[1:]:
        if p.func is None:
            continue
        s = out.setdefault(p.name, set())
        for n in ast.walk(p.func):
            if isinstance(n, ast.Call):
                d = dotted(n.func)
                if d and d.split('.')[-1] in ast_names:
                    s.add(d.split('.')[-1])
    return out


def reachable_classes(ctx, model, ast_names):
    reach = set(STATEMENT_CLASSES)
    for d in DIALECTS:
        g = load_dialect(ctx.src, d)
        cc = constructed_classes(g, model, ast_names)
        seen = set()
        work = [n for n in STATEMENT_NONTERMINALS if n in g.nonterminals]
        while work:
            n = work.pop()
            if n in seen:
                continue
            seen.add(n)
            reach |= cc.get(n, set())
            for p in g.prods_of(n):
                for s in p.rhs:
                    # `( query )` in FROM re-enters the start symbol: only the statement kinds above are followed
                    if s in g.nonterminals and s not in seen and s != g.start:
                        work.append(s)
    return reach


def run(ctx):
    ctx.explanation = (
        'Exhaustiveness analysis over a finite class x field matrix. The AST class table (bases, constructor fields) and, for '
        'every class, the child-carrying fields (fields on which the class\'s own to_tree/get_string/to_string call a node '
        'method, found by a position-sensitive "derives-from-field" analysis) are read from the source; the walker '
        'query_traversal is modelled as isinstance branches with visit sites (visited field, flags, parent_query, '
        'store-back target by forward taint). Rules: every reachable class with child fields is dispatched, every child '
        'field is visited, once, in the order of the class\'s own SQL printer (symbolic evaluation of the string '
        'composition), is_table/is_target exactly at table/target positions, results stored back into exactly the '
        'location read, optional fields guarded, callback called once first. Exhaustive over all AST classes and all '
        'visit sites. NOT decided: run-time visiting of dynamically attached attributes.')
    ctx.not_decided = ['behaviour of individual callbacks (decided per user under C10/C11/C12)']
    ctx.assumptions = ['a field holds child nodes iff the class\'s own printers call to_tree/to_string/get_string on it or its elements']
    model = model_for(ctx.src)
    w = walker_for(ctx.src)
    ast_classes = [c for c in model.subclasses('ASTNode') if c.file.startswith('mindsdb_sql/parser/')]
    ast_names = {c.name for c in ast_classes}
    ctx.setcount('ast_classes', len(ast_classes))
    reach = reachable_classes(ctx, model, ast_names)
    ctx.setcount('reachable_classes', len(reach))
    ctx.setcount('branches', len(w.branches))
    ctx.setcount('visit_sites', sum(len(b.sites) for b in w.branches))
    check_replace_table(ctx, w, model)

    # -- a replacement is recognised by `is not None` or by truthiness: in the second case no node class may be falsy ----------------------------
    truthy_sites = []
    tree_w = ctx.src.tree(w.file)
    walker_fns = [n for n in tree_w.body if isinstance(n, ast.FunctionDef) and (n is w.fn or n.name in w.helpers)]
    for f_ in walker_fns:
        rec_vars = set()
        for n in ast.walk(f_):
            if isinstance(n, ast.Assign) and isinstance(n.value, ast.Call) and isinstance(n.value.func, ast.Name) and n.value.func.id in ([w.fn.name] + list(w.helpers)):
                rec_vars |= {t.id for t in n.targets if isinstance(t, ast.Name)}
        for n in ast.walk(f_):
            first = None
            if isinstance(n, ast.BoolOp) and isinstance(n.op, ast.Or):
                first = n.values[0]
            elif isinstance(n, (ast.If, ast.IfExp, ast.While)):
                first = n.test.operand if isinstance(n.test, ast.UnaryOp) and isinstance(n.test.op, ast.Not) else n.test
            if first is None:
                continue
            if (isinstance(first, ast.Call) and isinstance(first.func, ast.Name) and first.func.id in ([w.fn.name] + list(w.helpers))) or \
                    (isinstance(first, ast.Name) and first.id in rec_vars):
                truthy_sites.append(n)
    ctx.setcount('replacement_truthiness_sites', len(truthy_sites))
    for c in ast_classes:
        falsy = [m for m in ('__bool__', '__len__') if any(m in k.methods for k in model.mro(c) if k.name != 'object')]
        ctx.ob('C13.replacement-kept', f'{c.name}', not (falsy and truthy_sites),
               f'{c.name} defines {falsy}: an instance can be falsy, and query_traversal keeps the ORIGINAL child when the replacement returned for it is falsy '
               f'(`... or node` at line {truthy_sites[0].lineno if truthy_sites else "?"}): a callback\'s replacement by such a node (an empty {c.name}) is silently dropped',
               file=c.file, line=c.node.lineno if hasattr(c, 'node') else None, witness='fill_query_params("select * from t where a in ?", [[]])')
    # -- elements are visited one after the other, not component by component ------------------------------------------------------------------------
    for b in w.branches:
        by_field = {}
        for s_ in b.sites:
            if s_.projection is not None:
                by_field.setdefault(s_.field, []).append(s_)
        for fld, ss in by_field.items():
            ctx.ob('C13.visit-order', f'{"/".join(b.classes)}.{fld}:element-wise', len(ss) < 2,
                   f'{"/".join(b.classes)}.{fld}: the components {[x.projection for x in ss]} of the elements are visited in separate passes over the field (all first '
                   f'components, then all second ones); the printer writes the elements one after the other (WHEN c1 THEN r1 WHEN c2 THEN r2), so the visiting order is '
                   f'not the textual order: positional placeholders are bound to the wrong places', file=w.file, line=ss[0].call.lineno,
                   witness='select case when a < ? then ? when a < ? then ? end from t')
        # the same, written as separate loops / comprehensions over the field that each visit one component of the unpacked elements
        comps = {}
        for s_ in b.sites:
            if s_.shape != 'elem' or not s_.call.args:
                continue
            a0 = s_.call.args[0]
            base = a0.value if isinstance(a0, ast.Subscript) else a0
            if not isinstance(base, ast.Name):
                continue
            for anc in ancestors(s_.call):
                gens = [(anc.target, anc)] if isinstance(anc, ast.For) else ([(g_.target, anc) for g_ in anc.generators] if hasattr(anc, 'generators') else [])
                hit = None
                for tgt, holder in gens:
                    elts = tgt.elts if isinstance(tgt, ast.Tuple) else [tgt]
                    for i_, e_ in enumerate(elts):
                        if isinstance(e_, ast.Name) and e_.id == base.id:
                            ci = i_ if isinstance(tgt, ast.Tuple) else (a0.slice.value if isinstance(a0, ast.Subscript) and isinstance(a0.slice, ast.Constant) else None)
                            hit = (id(holder), ci)
                if hit is not None:
                    if hit[1] is not None:
                        comps.setdefault(s_.field, []).append((hit[0], hit[1], s_))
                    break
        for fld, lst in comps.items():
            loops = {l for l, _, _ in lst}
            split = len(loops) > 1 and len({c_ for _, c_, _ in lst}) > 1
            ctx.ob('C13.visit-order', f'{"/".join(b.classes)}.{fld}:element-wise-loops', not split,
                   f'{"/".join(b.classes)}.{fld}: the components of the elements are visited in {len(loops)} separate passes over the field (all first components, then all '
                   f'second ones); the printer writes the elements one after the other (WHEN c1 THEN r1 WHEN c2 THEN r2), so the visiting order is not the textual order',
                   file=w.file, line=lst[0][2].call.lineno, witness='select case when a < ? then ? when a < ? then ? end from t')
    # -- callback-first ---------------------------------------------------------------------------
    cb_calls = [n for n in ast.walk(w.fn) if isinstance(n, ast.Call) and isinstance(n.func, ast.Name) and n.func.id == w.cb]
    ok = False
    msg = 'query_traversal does not start with `res = callback(node, ...)` followed by `if res is not None: return res`'
    if len(w.pre) >= 2 and isinstance(w.pre[0], (ast.Expr, ast.Assign)) or (w.pre and isinstance(w.pre[0], ast.Expr)):
        stmts = [s for s in w.pre if not (isinstance(s, ast.Expr) and isinstance(s.value, ast.Constant))]
        if len(stmts) >= 2 and isinstance(stmts[0], ast.Assign) and stmts[0].value in cb_calls \
                and isinstance(stmts[0].targets[0], ast.Name) and isinstance(stmts[1], ast.If):
            rv = stmts[0].targets[0].id
            t = stmts[1].test
            is_notnone = isinstance(t, ast.Compare) and norm(t) == f'{rv} is not None'
            rets = [s for s in stmts[1].body if isinstance(s, ast.Return)]
            if is_notnone and rets and norm(rets[0].value) == rv and not stmts[1].orelse:
                call = stmts[0].value
                kws = {k.arg: norm(k.value) for k in call.keywords}
                passes = (call.args and norm(call.args[0]) == w.node and
                          all(kws.get(pn) == pn for pn in w.params[2:]))
                ok = bool(passes)
                if not passes:
                    msg = f'the callback is not called with the node and the flags of this invocation: `{norm(call)}`'
    ctx.ob('C13.callback-first', 'query_traversal', ok, msg, file=w.file, line=w.fn.lineno)
    ctx.ob('C13.callback-once', 'query_traversal', len(cb_calls) == 1,
           f'the visitor callback is called {len(cb_calls)} times per invocation of query_traversal (must be exactly once)',
           file=w.file, line=w.fn.lineno)
    rets = [n for n in ast.walk(w.fn) if isinstance(n, ast.Return)]
    ctx.count('returns', len(rets))

    # -- per class ------------------------------------------------------------------------------------
    covered_by_parent = {}
    for b in w.branches:
        for s in b.sites:
            if s.sub:
                covered_by_parent.setdefault(s.sub, []).append((b, s))
    matrix = {}
    pairs = 0
    for ci in ast_classes:
        cf = child_fields(model, ci)
        b = w.branch_for(model, ci)
        sem = {f: sh for f, sh in cf.items() if not exempt(ci.name, f)}
        for f in cf:
            if exempt(ci.name, f):
                ctx.note(f'{ci.name}.{f}: child-carrying but exempt - {exempt(ci.name, f)}')
        pairs += len(sem)
        matrix[ci.name] = {'branch': b.classes if b else None, 'child_fields': sorted(sem), 'reachable': ci.name in reach}
        if ci.name not in reach and b is None:
            continue
        if b is None:
            if not sem:
                continue
            by_parent = all(f in covered_by_parent for f in sem)
            ctx.ob('C13.class-dispatched', ci.name, by_parent,
                   f'{ci.name} can occur inside a statement the walker accepts and has child field(s) {sorted(sem)}, '
                   f'but query_traversal has no isinstance branch for it: its children are never visited',
                   file=ci.file, line=ci.node.lineno)
            continue
        visited = {}
        for s in b.sites:
            visited.setdefault(s.field, []).append(s)
        # ... and only children are visited: what the class keeps in a field its printers treat as plain data (the text of an INTERVAL) is not a node; the
        # visitor would be called with a str, and whatever it returns would be stored inside the node
        own_fields = set(model.self_fields(ci))
        STR_ONLY = {'split', 'rsplit', 'strip', 'lstrip', 'rstrip', 'lower', 'upper', 'startswith', 'endswith', 'replace', 'splitlines', 'title', 'capitalize', 'isdigit',
                    'format', 'encode'}
        text_fields = set()
        for c2 in model.mro(ci):
            for mname in ('get_string', 'to_string', 'to_tree'):
                pm = c2.node and next((m_ for m_ in c2.node.body if isinstance(m_, ast.FunctionDef) and m_.name == mname), None)
                if not pm or c2 is not next((c3 for c3 in model.mro(ci) if mname in c3.methods), None):
                    continue        # only the definition this class really uses
                fu_ = FieldUse(pm, 'self', model, ci)
                for n_ in ast.walk(pm):
                    if isinstance(n_, ast.Call) and isinstance(n_.func, ast.Attribute) and n_.func.attr in STR_ONLY:
                        src_ = fu_.field_of(n_.func.value)
                        if src_ is not None:
                            text_fields.add(src_[0])
        for f in sorted(set(visited) & own_fields & text_fields):
            if f in cf or exempt(ci.name, f):
                continue
            ctx.ob('C13.visit-only-children', f'{ci.name}.{f}', False,
                   f'{ci.name} reaches the {"/".join(b.classes)} branch of query_traversal, which visits `{f}`; the printers of {ci.name} use `{f}` as plain data (no node '
                   f'method is called on it): the visitor is called with a value that is not a node, and its return value is stored in the node',
                   file=w.file, line=visited[f][0].call.lineno, witness="select interval '1 day'")
        for f in sorted(sem):
            ctx.ob('C13.field-unvisited', f'{ci.name}.{f}', f in visited,
                   f'{ci.name}.{f} holds child node(s) (its printers call node methods on it) but the '
                   f'{"/".join(b.classes)} branch of query_traversal never visits it: tables, placeholders and identifiers '
                   f'there are invisible to every analysis built on the walker',
                   file=w.file, line=b.lineno, witness=WITNESS.get((ci.name, f)))
    ctx.setcount('child_field_pairs', pairs)
    ctx.ob('C13.visit-only-children', 'all', True, '')
    # -- the renderer reads only fields the walker maintains: a child node the renderer takes from a field that query_traversal never visits is not replaced
    # when a visitor (the planner) replaces that child in the field the printers use - the rendered statement still contains the old sub-tree
    RENDER = 'mindsdb_sql/render/sqlalchemy_render.py'
    nrr = 0
    if ctx.src.exists(RENDER):
        rtree = ctx.src.tree(RENDER)
        rcls = next((x for x in rtree.body if isinstance(x, ast.ClassDef) and x.name == 'SqlalchemyRender'), None)
        te_ = next((m for m in (rcls.body if rcls else []) if isinstance(m, ast.FunctionDef) and m.name == 'to_expression'), None)
        if te_ is not None:
            subj = subj0 = te_.args.args[1].arg
            links = []
            for first_ in [n for n in te_.body if isinstance(n, ast.If)]:
                cur_ = first_
                while cur_ is not None:
                    links.append(cur_)
                    cur_ = cur_.orelse[0] if len(cur_.orelse) == 1 and isinstance(cur_.orelse[0], ast.If) else None
            for node_ in links:
                t_ = node_.test
                names_ = []
                if isinstance(t_, ast.Call) and dotted(t_.func) == 'isinstance' and len(t_.args) == 2 and norm(t_.args[0]) == subj0:
                    names_ = [(dotted(x) or '').split('.')[-1] for x in (t_.args[1].elts if isinstance(t_.args[1], ast.Tuple) else [t_.args[1]])]
                for cn_ in names_:
                    ci_ = model.resolve(cn_) if cn_ in model.classes else None
                    b_ = w.branch_for(model, ci_) if ci_ is not None else None
                    if b_ is None:
                        continue
                    visited_ = {s_.field for s_ in b_.sites}
                    TRANSLATORS_ = ('to_expression', 'prepare_select', 'to_function', 'prepare_case', 'to_order_by', 'to_table')
                    # the branch body, and the bodies of the methods the branch hands the node itself to (`return self.to_window_function(t)`), each with the
                    # name the node has there
                    regions_ = [(node_.body, subj0)]
                    meths_ = {m.name: m for m in rcls.body if isinstance(m, ast.FunctionDef)}
                    for stmts0_, sname0_ in list(regions_):
                        for st0_ in stmts0_:
                            for c0_ in ast.walk(st0_):
                                if isinstance(c0_, ast.Call) and isinstance(c0_.func, ast.Attribute) and norm(c0_.func.value) == 'self' and c0_.func.attr in meths_ \
                                        and c0_.func.attr not in TRANSLATORS_ and any(isinstance(a0_, ast.Name) and a0_.id == sname0_ for a0_ in c0_.args):
                                    m0_ = meths_[c0_.func.attr]
                                    k0_ = next(i for i, a0_ in enumerate(c0_.args) if isinstance(a0_, ast.Name) and a0_.id == sname0_)
                                    if k0_ + 1 < len(m0_.args.args):
                                        regions_.append((m0_.body, m0_.args.args[k0_ + 1].arg))
                    for stmts_, subj in regions_:
                      for st_ in stmts_:
                        for c_ in ast.walk(st_):
                            if isinstance(c_, ast.Call) and isinstance(c_.func, ast.Attribute) and norm(c_.func.value) == 'self' \
                                    and c_.func.attr in TRANSLATORS_:
                                for a_ in c_.args:
                                    base_ = a_
                                    while isinstance(base_, ast.Subscript):
                                        base_ = base_.value
                                    if isinstance(base_, ast.Attribute) and isinstance(base_.value, ast.Name) and base_.value.id == subj:
                                        nrr += 1
                                        fld_ = base_.attr
                                        # a property that hands out (an element of) another field is a view of that field
                                        prop_ = next((m_ for c2_ in model.mro(ci_) for m_ in c2_.node.body if isinstance(m_, ast.FunctionDef) and m_.name == fld_
                                                      and any(norm(d_) == 'property' for d_ in m_.decorator_list)), None)
                                        if prop_ is None:
                                            # ... or a property object made by a module-level factory: `query = _first_arg_property()` in the class body
                                            for c2_ in model.mro(ci_):
                                                for st2_ in c2_.node.body:
                                                    if isinstance(st2_, ast.Assign) and len(st2_.targets) == 1 and isinstance(st2_.targets[0], ast.Name) \
                                                            and st2_.targets[0].id == fld_ and isinstance(st2_.value, ast.Call) and isinstance(st2_.value.func, ast.Name):
                                                        fac_ = next((d_ for d_ in ctx.src.tree(c2_.file).body if isinstance(d_, ast.FunctionDef)
                                                                     and d_.name == st2_.value.func.id), None)
                                                        if fac_ is not None:
                                                            prop_ = next((m_ for m_ in ast.walk(fac_) if isinstance(m_, ast.FunctionDef) and m_ is not fac_
                                                                          and any(norm(d_) == 'property' for d_ in m_.decorator_list)), None)
                                                if prop_ is not None:
                                                    break
                                        if prop_ is not None:
                                            rets_ = [r_.value for r_ in ast.walk(prop_) if isinstance(r_, ast.Return) and r_.value is not None]
                                            if len(rets_) == 1:
                                                rb_ = rets_[0]
                                                while isinstance(rb_, ast.Subscript):
                                                    rb_ = rb_.value
                                                if isinstance(rb_, ast.Attribute) and isinstance(rb_.value, ast.Name) and rb_.value.id == prop_.args.args[0].arg:
                                                    fld_ = rb_.attr
                                        ctx.ob('C13.renderer-reads-visited', f'{cn_}.{base_.attr}', fld_ in visited_,
                                               f'the renderer takes the child of a {cn_} from `{subj}.{base_.attr}`, a field the {"/".join(b_.classes)} branch of query_traversal '
                                               f'never visits: when a visitor replaces that child (a sub-select planned apart becomes a parameter) the renderer still renders '
                                               f'the old sub-tree', file=RENDER, line=c_.lineno,
                                               witness='select * from int1.t where exists (select 1 from int2.u)')
    ctx.setcount('renderer_child_reads', nrr)
    ctx.floor('renderer_child_reads', 10)

    # -- per branch / site -------------------------------------------------------------------------------
    for b in w.branches:
        if b.classes == ['<list>']:
            continue
        bname = '/'.join(b.classes)
        cis = [model.get(c) for c in b.classes]
        # visit-once
        per_field = {}
        for s in b.sites:
            per_field.setdefault((s.field, s.sub), []).append(s)
        for (f, sub), ss in per_field.items():
            shapes = {x.shape for x in ss}
            multi = len(ss) > 1 and not (f == 'rules' and len(ss) == 2)   # Case.rules: (condition, result) pairs
            if f == 'rules' and len(ss) == 2:
                multi = norm(ss[0].call.args[0]) == norm(ss[1].call.args[0])
            ctx.ob('C13.visit-once', f'{bname}.{f}', not multi,
                   f'{bname}.{f} is visited by {len(ss)} recursive calls on one path', file=w.file, line=ss[0].call.lineno)
        # order vs printer
        for ci in cis:
            pc, pf = printer_method(model, ci)
            if pf is None:
                continue
            order = PrinterOrder(pf, 'self', model, ci).result
            site_order = []
            for s in b.sites:
                if s.field not in site_order:
                    site_order.append(s.field)
            common = [f for f in order if f in site_order]
            for i, fa in enumerate(common):
                for fb in common[i + 1:]:
                    inv = site_order.index(fa) > site_order.index(fb)
                    ctx.ob('C13.visit-order', f'{ci.name}:{fa}<{fb}', not inv,
                           f'{ci.name}: the SQL text prints {fa} before {fb} ({ci.name}.{pf.name}), but query_traversal visits '
                           f'{fb} first - visiting order is not left-to-right textual order',
                           file=w.file, line=b.lineno, witness=WITNESS.get((ci.name, 'order')))
            ctx.count('order_classes')
        for s in b.sites:
            for ci in cis:
                key = (ci.name, s.field)
                cons = f'{ci.name}.{s.label()}'
                # flags
                it = s.kw.get('is_table')
                is_t = it is not None and not (isinstance(it, ast.Constant) and it.value in (False, None))
                want_t = key in TABLE_POSITIONS
                ctx.ob('C13.flags', f'{cons}:is_table', is_t == want_t,
                       f'{cons}: visited with is_table={norm(it) if it is not None else "False (default)"}, but the position is '
                       f'{"a" if want_t else "not a"} table position', file=w.file, line=s.call.lineno)
                tg = s.kw.get('is_target')
                is_g = tg is not None and not (isinstance(tg, ast.Constant) and tg.value in (False, None))
                want_g = key in TARGET_POSITIONS
                ctx.ob('C13.flags', f'{cons}:is_target', is_g == want_g,
                       f'{cons}: visited with is_target={norm(tg) if tg is not None else "False (default)"}, but the position is '
                       f'{"a" if want_g else "not a"} select-list position', file=w.file, line=s.call.lineno)
                pq = s.kw.get('parent_query')
                want_pq = w.node if ci.name in STATEMENT_CLASSES else 'parent_query'
                ctx.ob('C13.flags', f'{cons}:parent_query', pq is not None and norm(pq) == want_pq,
                       f'{cons}: parent_query passed as `{norm(pq) if pq is not None else "<missing>"}`, expected `{want_pq}` '
                       f'(the enclosing statement node)', file=w.file, line=s.call.lineno)
            ci0 = cis[0]
            cons = f'{bname}.{s.label()}'
            # replace-exact
            if not s.result_used:
                ctx.ob('C13.replace-exact', cons, False,
                       f'{cons}: the value returned by the recursive visit is dropped, so a node returned by the visitor for '
                       f'this position replaces nothing', file=w.file, line=s.call.lineno)
            else:
                want = (s.field, s.sub)
                ok = s.stores == [want]
                if ok and s.store_problem:
                    ctx.ob('C13.replace-exact', cons + ':slot', False,
                           f'{cons}: {s.store_problem}', file=w.file, line=s.call.lineno,
                           witness='select a, b, a  -- a visitor replacing only the second `a` replaces the first')
                ctx.ob('C13.replace-exact', cons, ok,
                       f'{cons}: the visit reads `{norm(s.call.args[0])}` but its result is stored into '
                       f'{[("node." + f + ("[]." + sub if sub else "")) for f, sub in s.stores] or "nothing"}; a node returned by the '
                       f'visitor must replace exactly the visited node', file=w.file, line=s.call.lineno)
            # the visit is unconditional: the only conditions it may stand under are presence tests of the visited field itself and the class test of the branch
            extra = s.extra_conditions
            ctx.ob('C13.visit-unconditional', cons, not extra,
                   f'{cons}: the visit happens only when `{"not " if extra and not extra[0][1] else ""}{norm(extra[0][0]) if extra else ""}` holds: under another condition the '
                   f'children in this field are skipped, so a visitor (table discovery, qualifier rewrite, placeholder binding) never sees them',
                   file=w.file, line=s.call.lineno, witness="insert into t (a, b) values (1, 'x'), (?, ?)")
            # optional fields must be guarded
            params = dict(model.init_params(ci0))
            d = params.get(s.field)
            optional = isinstance(d, ast.Constant) and d.value is None
            if optional:
                ctx.ob('C13.guarded-optional', cons, s.guarded,
                       f'{cons}: the field defaults to None but is visited without an `is not None` test: the visitor is '
                       f'called with None instead of a node', file=w.file, line=s.call.lineno)
    ctx.extra['matrix'] = matrix
    ctx.extra['walker_users'] = walker_users(ctx)
    for cn in sorted(matrix)[:6]:
        ctx.sample({'class': cn, **matrix[cn]})
    for b in w.branches[:4]:
        ctx.sample({'branch': b.classes, 'sites': [{'visits': s.label(), 'flags': {k: norm(v) for k, v in s.kw.items()},
                                                    'stored_into': s.stores} for s in b.sites]})
    ctx.floor('ast_classes', 75)
    ctx.floor('branches', 14)
    ctx.floor('visit_sites', 34)
    ctx.floor('child_field_pairs', 45)
    ctx.floor('order_classes', 15)


def check_replace_table(ctx, w, model):
    """query_traversal itself interpreted (sa/interp.py) on one node of every dispatched class whose list-valued field holds three leaves, with a callback that
    replaces every subset of them: afterwards the field holds, position by position, the replacement where one was returned and the original element where not -
    nothing dropped, nothing duplicated, nothing reordered - and every leaf was offered to the callback exactly once."""
    import itertools
    from ..interp import Interp, Obj, Raised, Env
    from ..walker import WALKER_FILE
    isa = model.isa_table()
    rows = skipped = 0
    for b in w.branches:
        if b.classes == ['<list>']:
            continue
        attrs = {n.attr for st in b.body for n in ast.walk(st) if isinstance(n, ast.Attribute) and isinstance(n.value, ast.Name) and n.value.id == w.node}
        list_fields = {s_.field for s_ in b.sites if s_.shape in ('elem', 'projection', 'value')}
        for s_ in b.sites:
            if s_.shape != 'elem' or s_.sub is not None or s_.projection is not None:
                continue
            for cls in b.classes:
                for subset in [c for r in range(4) for c in itertools.combinations(range(3), r)]:
                    leaves = [Obj('Constant', value=i, alias=None, parentheses=False) for i in range(3)]
                    repl = {id(leaves[i]): Obj('Constant', value=f'r{i}', alias=None, parentheses=False) for i in subset}
                    node = Obj(cls, **{a: ([] if a in list_fields else None) for a in attrs})
                    node.attrs[s_.field] = list(leaves)
                    offered = []

                    def cb(n, **kw):
                        offered.append(n)
                        return repl.get(id(n))
                    it = Interp.for_file(ctx.src, WALKER_FILE, isa, {})
                    try:
                        it.call_function(w.fn, [node, cb], {}, Env())
                    except (Raised, AnalysisError, TypeError, AttributeError):          # elements of this field are not plain nodes (rows, pairs, columns)
                        skipped += 1
                        break
                    rows += 1
                    got = node.attrs.get(s_.field)
                    want = [repl.get(id(x), x) for x in leaves]
                    ok = isinstance(got, (list, tuple)) and len(got) == 3 and all(a is b_ for a, b_ in zip(got, want))
                    once = all(sum(1 for o in offered if o is x) == 1 for x in leaves)
                    shown = [getattr(x, 'value', x) for x in got] if isinstance(got, (list, tuple)) else got
                    ctx.ob('C13.replace-exact', f'{cls}.{s_.field}:table:replaced={list(subset)}', ok,
                           f'{cls}.{s_.field} = [0, 1, 2] with the callback replacing the element(s) {list(subset)}: the field holds {shown} afterwards, expected '
                           f'{[getattr(x, "value", x) for x in want]} - an element the callback does not replace stays where it is', file=w.file, line=s_.call.lineno,
                           witness='a IN (?, 10, ?) bound with [1, 2]')
                    ctx.ob('C13.visit-once', f'{cls}.{s_.field}:table:replaced={list(subset)}', once,
                           f'{cls}.{s_.field}: the callback is offered the elements {[getattr(o, "value", None) for o in offered if o is not node]} - every element exactly once',
                           file=w.file, line=s_.call.lineno)
                else:
                    continue
                break
    ctx.setcount('replace_table_rows', rows)
    ctx.floor('replace_table_rows', 8 * 8)
    ctx.note(f'replace table: {rows} rows interpreted, {skipped} (class, field) pairs whose elements are not plain nodes left to the structural rules')


def walker_users(ctx):
    """Call sites of query_traversal outside the walker itself (evidence: who is blinded by a walker gap)."""
    out = []
    for f in ctx.src.py_files('mindsdb_sql'):
        tree = ctx.src.tree(f)
        for n in ast.walk(tree):
            if isinstance(n, ast.Call) and dotted(n.func) in ('query_traversal', 'utils.query_traversal') and len(n.args) >= 2:
                fn = None
                p = getattr(n, '_parent', None)
                while p is not None:
                    if isinstance(p, ast.FunctionDef) and p.name != 'query_traversal':
                        fn = p.name
                        break
                    p = getattr(p, '_parent', None)
                if fn:
                    out.append(f'{f}:{fn}:{norm(n.args[1])}')
    return sorted(set(out))


WITNESS = {
    ('Case', 'arg'): 'select case int2.t.x when 1 then 2 end from int1.t   -- the CASE operand is never visited',
    ('Function', 'from_arg'): 'select extract(year from ?) from t   -- the placeholder is not found',
    ('Delete', 'table'): 'delete from int1.t where a = 1   -- the table is never reported to the visitor',
    ('Update', 'keys'): 'update t on int1.a from (select * from s)   -- key columns are never visited',
    ('Select', 'order'): 'with c as (select ?) select ? from (select ?) s   -- placeholders bind in visiting order',
    ('Join', 'order'): 'select * from (select ?) a join (select ?) b   -- right side is visited first',
    ('Update', 'order'): 'update t set a=?, b=? where c=?   -- WHERE is visited before SET',
}
