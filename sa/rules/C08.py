"""C08 - executing a federated plan returns what the original query returns.

Result equivalence over all data is NOT decided (it needs an interpreter of plans and data).  Decided are necessary
conditions of the statement's last sentence - filters, semi-join restrictions, ORDER BY and LIMIT are pushed into per-table
fetches only when that cannot change the result - as truth tables of the planner's own decision code, obtained by
interpreting the functions of PlanJoinTablesQuery (sa/interp.py, fail-closed) on abstract stand-ins.
"""
import ast
import itertools

from ..source import AnalysisError, norm, const_str
from ..cfg import class_named, function_named
from ..interp import class_members, Interp, Obj, Raised, ClassRef
from ..grammar import load_dialect, DIALECTS
from ..lexmodel import spelling

PJ = 'mindsdb_sql/planner/plan_join.py'
ISA = {'NullConstant': {'Constant'}, 'BinaryOperation': {'Operation'}, 'BetweenOperation': {'Operation'}, 'UnaryOperation': {'Operation'},
       'Function': {'Operation'}, 'Union': {'Select'}}
LEFT_KINDS = ('LEFT JOIN', 'LEFT OUTER JOIN')


def ident(name, table=None):
    return Obj('Identifier', parts=name.split('.'), alias=None, parentheses=False, _table=table)


def const(v):
    return Obj('Constant', value=v, alias=None) if v is not None else Obj('NullConstant', value=None, alias=None)


def binop(op, a, b):
    return Obj('BinaryOperation', op=op, args=[a, b], alias=None)


def traverse(interp, node, callback, **kw):
    """stand-in for planner.utils.query_traversal on stand-in trees: pre-order, callback first, replacement honoured"""
    if node is None:
        return None
    if isinstance(node, list):
        out = []
        for n in node:
            r = traverse(interp, n, callback)
            out.append(r if r is not None else n)
        return out
    r = callback(node, is_table=False, is_target=False, parent_query=None, callstack=[])
    if r is not None:
        return r
    if isinstance(node, Obj):
        for f in ('args', 'arg', 'where', 'rules', 'default', 'function'):
            if f in node.attrs and node.attrs[f] is not None:
                v = node.attrs[f]
                if isinstance(v, list):
                    for i, x in enumerate(v):
                        if isinstance(x, list):
                            for y in x:
                                traverse(interp, y, callback)
                        else:
                            r = traverse(interp, x, callback)
                            if r is not None:
                                v[i] = r
                else:
                    r = traverse(interp, v, callback)
                    if r is not None:
                        node.attrs[f] = r
    return None


def select_ctor(interp, *args, **kw):
    d = dict(targets=None, distinct=False, from_table=None, where=None, group_by=None, having=None, order_by=None, limit=None, offset=None,
             cte=None, mode=None, using=None, alias=None, parentheses=False)
    d.update(kw)
    return Obj('Select', **d)


def base_stubs():
    return {
        'copy.deepcopy': lambda it, x: x.clone() if isinstance(x, Obj) else ([y.clone() if isinstance(y, Obj) else y for y in x] if isinstance(x, list) else x),
        'query_traversal': traverse,
        'Select': select_ctor,
        'BinaryOperation': lambda it, *a, **k: Obj('BinaryOperation', op=(a[0] if a else k.get('op')), args=list(k.get('args') or (a[1] if len(a) > 1 else [])), alias=None),
        'Identifier': lambda it, *a, **k: Obj('Identifier', parts=list(k.get('parts') or (a[0].split('.') if a else [])), alias=k.get('alias'), parentheses=False, _table=None),
        'Star': lambda it: Obj('Star'),
        'Constant': lambda it, v: const(v),
    }


def join_vocabulary(ctx):
    out = set()
    for d in DIALECTS:
        g = load_dialect(ctx.src, d)
        for p in g.prods_of('join_clause'):
            out.add(' '.join(spelling(g.lexer, s).upper() for s in p.rhs))
    ctx.need(len(out) >= 9, 'join_clause vocabulary not found in the grammars')
    return sorted(out)


_METHODS = {}
_CTX = {}


def interp_for(stubs, file=None, isa_extra=None, **kw):
    """an interpreter that resolves methods and class constants of the planner classes and the module-level names of `file`"""
    # the printers of the AST nodes the planner prints (Identifier.to_string) are interpreted too; the reserved words come from the static lexer model
    if 'tok_stubs' not in _CTX:
        from . import C04
        _CTX['tok_stubs'] = C04.lexer_token_stubs(_CTX['ctx'])
    st = dict(_CTX['tok_stubs'])
    st.update(stubs)
    it_ = Interp.for_file(_CTX['src'], file or PJ, dict(ISA, **(isa_extra or {})), st, also=('mindsdb_sql/planner/plan_join.py', 'mindsdb_sql/planner/query_planner.py', 'mindsdb_sql/planner/ts_utils.py',
                                                                   'mindsdb_sql/planner/utils.py', 'mindsdb_sql/parser/ast/base.py',
                                                                   'mindsdb_sql/parser/ast/select/identifier.py', 'mindsdb_sql/parser/ast/select/union.py'), **kw)
    # tree nodes compare by what they print (ASTNode.__eq__): two `t` of different databases are EQUAL once the database part is taken off
    it_.struct_eq = {'Identifier', 'Constant', 'Star', 'BinaryOperation', 'UnaryOperation', 'BetweenOperation', 'Function', 'Select', 'Parameter', 'OrderBy', 'Tuple',
                     'NullConstant', 'Join', 'TypeCast', 'Case', 'WindowFunction'}
    return it_


def new_pjt(**attrs):
    """a PlanJoinTablesQuery stand-in as its own constructor leaves it (interpreted: whatever bookkeeping attributes __init__ creates exist), then the given attributes"""
    o = Obj('PlanJoinTablesQuery')
    init = _CTX.get('pjt_init')
    if init is not None:
        try:
            interp_for(base_stubs()).call_function(init, [o, attrs.get('planner') or Obj('QueryPlanner')], {}, _env())
        except (Raised, AnalysisError):
            pass
    o.attrs.update(attrs)
    return o


def run(ctx):
    ctx.explanation = (
        'Truth tables of the join planner\'s pushdown decisions, obtained by interpreting the functions of PlanJoinTablesQuery on '
        'abstract stand-ins (fail-closed interpreter over the AST; nothing is imported or executed): (conjunct-only) '
        'check_query_conditions is run on 14 WHERE shapes (AND chains, OR, NOT, function argument, CASE, IN sub-select, BETWEEN) and may '
        'hand to check_node_condition only top-level conjuncts, and must count all of them; (null-rejecting) check_node_condition must not '
        'register `col IS NULL`; (on-clause-side) get_filters_from_join_conditions is run for every join kind of the grammars on an ON '
        'clause with a constant comparison and an equi-join and must return nothing for kinds that keep unmatched rows of the fetched '
        '(right) table, and get_join_sequence must attach to a table the kind and condition of the join it is the right side of; '
        '(limit-gate) check_use_limit is run on limit x group_by x having x distinct x aggregate-in-targets x join-sequence shapes; '
        '(limit-push) process_table is run on use_limit x where-conjunct count x conditions of this table x OR present x order-by origin '
        'x offset and may move LIMIT/OFFSET/ORDER only when every WHERE conjunct is applied in that fetch and all ordering columns are '
        'its own; (outer-reapply) plan() must re-apply the complete outer query on the join result whenever any clause is present.')
    ctx.not_decided = ['row-set equality of plan execution and single-engine execution on data',
                       'soundness of the IN-semi-join rewrite with NULL keys and of OFFSET under row-multiplying joins (see known findings)',
                       'plan_union / plan_cte / plan_nested_select / api-db paths']
    tree = ctx.src.tree(PJ)
    cls = class_named(tree, 'PlanJoinTablesQuery')
    ctx.need(cls is not None, 'PlanJoinTablesQuery not found')
    fn = class_members(cls)
    _CTX.clear()
    _CTX.update(tree=tree, src=ctx.src, ctx=ctx)
    _CTX['pjt_init'] = fn.get('__init__')
    for need in ('check_query_conditions', 'check_node_condition', 'check_use_limit', 'process_table', 'get_filters_from_join_conditions',
                 'get_join_sequence', 'plan'):
        ctx.need(need in fn, f'PlanJoinTablesQuery.{need} not found')
    rows = 0

    # ---- conjunct-only -----------------------------------------------------------------------------------------------------
    def cmp_(name):
        return binop('=', ident(name), const(1))
    A, B, C = cmp_('t1.a'), cmp_('t2.b'), cmp_('t2.c')
    btw = Obj('BetweenOperation', op='between', args=[ident('t2.d'), const(1), const(2)], alias=None)
    shapes = [
        ('a', A, [A]), ('a AND b', binop('and', A, B), [A, B]), ('(a AND b) AND c', binop('and', binop('and', A, B), C), [A, B, C]),
        ('a OR b', binop('or', A, B), []), ('NOT b', Obj('UnaryOperation', op='not', args=[B], alias=None), []),
        ('a AND NOT b', binop('and', A, Obj('UnaryOperation', op='not', args=[B], alias=None)), [A]),
        ('a AND (b OR c)', binop('and', A, binop('or', B, C)), [A]),
        ('f(b = 1)', Obj('Function', op='coalesce', args=[B], alias=None, distinct=False, from_arg=None, namespace=None), []),
        ('a AND f(b)', binop('and', A, Obj('Function', op='f', args=[B], alias=None, distinct=False, from_arg=None, namespace=None)), [A]),
        ('CASE WHEN b THEN .. END = 1', binop('=', Obj('Case', rules=[[B, const(1)]], default=const(0), arg=None, alias=None), const(1)), None),
        ('x IN (SELECT .. WHERE b)', binop('in', ident('t1.x'), select_ctor(None, where=B)), None),
        ('d BETWEEN 1 AND 2', btw, [btw]), ('a AND d BETWEEN 1 AND 2', binop('and', A, btw), [A, btw]),
        ('NOT d BETWEEN', Obj('UnaryOperation', op='not', args=[btw], alias=None), []),
        ('no WHERE', None, []),
    ]
    for label, where, allowed in shapes:
        got = []
        stubs = base_stubs()
        stubs['self.check_node_condition'] = lambda it, n: got.append(n)
        it = interp_for(stubs)
        self_ = new_pjt(query_context={})
        try:
            it.call_function(fn['check_query_conditions'], [self_, select_ctor(None, where=where)], {}, _env())
        except Raised as r:
            raise AnalysisError(f'check_query_conditions raises {r.exc_name} on WHERE shape `{label}`')
        rows += 1
        top = _conjuncts(where)
        # handing over a top-level conjunct is always fine (check_node_condition decides whether its shape is a table filter)
        allowed = top
        extra = [g for g in got if not any(g is a for a in allowed)]
        ctx.ob('C08.conjunct-only', label, not extra,
               f'WHERE {label}: check_query_conditions registers {len(extra)} comparison(s) that are not top-level conjuncts as per-table '
               f'filters ({[_show(x) for x in extra]}): a comparison under OR / NOT / a function / CASE / a sub-select does not restrict the '
               f'result on its own, so the table is fetched with a filter the query does not imply', file=PJ, line=fn['check_query_conditions'].lineno,
               witness='select * from int1.t1 join int2.t2 on ... where not t2.b = 1')
        if label in ('a AND b', '(a AND b) AND c', 'a'):
            missing = [a for a in top if not any(g is a for g in got)]
            ctx.ob('C08.conjunct-only', f'{label}:anchor', not missing, f'WHERE {label}: top-level conjuncts are not registered at all (rule would be vacuous)',
                   file=PJ, line=fn['check_query_conditions'].lineno)
        ints = {k: v for k, v in self_.attrs['query_context'].items() if isinstance(v, int) and not isinstance(v, bool)}
        # the entry process_table compares the number of applied filters with
        cmp_keys = [const_str(x.slice) for c_ in ast.walk(fn['process_table']) if isinstance(c_, ast.Compare) for x in ast.walk(c_)
                    if isinstance(x, ast.Subscript) and norm(x.value) == 'self.query_context' and const_str(x.slice) in ints]
        if len(ints) > 1 and cmp_keys:
            ints = {k: v for k, v in ints.items() if k in cmp_keys}
        ctx.need(len(ints) == 1, f'check_query_conditions: expected one integer entry (number of WHERE conjuncts) in query_context, found {sorted(ints)}')
        count_key, n = list(ints.items())[0]
        ctx.ob('C08.conjunct-only', f'{label}:count', n == len(top),
               f'WHERE {label}: query_context[{count_key}] = {n}, but the WHERE has {len(top)} top-level conjunct(s): the limit pushdown '
               f'compares this number with the filters applied in the fetch', file=PJ, line=fn['check_query_conditions'].lineno)
    # ---- null-rejecting / what check_node_condition registers ---------------------------------------------------------------------------
    tinfo = Obj('TableInfo', conditions=[], table=ident('t2'), index=1)
    probes = [
        ('t2.y IS NULL', binop('is', ident('t2.y', tinfo), const(None)), False),
        # true for the NULLs an outer join adds: not null-rejecting either
        ('t2.y IS NOT TRUE', binop('is not', ident('t2.y', tinfo), const(True)), False),
        ('t2.y IS NOT FALSE', binop('IS NOT', ident('t2.y', tinfo), const(False)), False),
        ('t2.y = 1', binop('=', ident('t2.y', tinfo), const(1)), True),
        ('1 = t2.y', binop('=', const(1), ident('t2.y', tinfo)), True),
        ('t2.y = t1.x', binop('=', ident('t2.y', tinfo), ident('t1.x', tinfo)), False),
        ('t2.y BETWEEN 1 AND 2', Obj('BetweenOperation', op='between', args=[ident('t2.y', tinfo), const(1), const(2)], alias=None), True),
        ('y = 1 (unqualified)', binop('=', ident('y', tinfo), const(1)), False),
        ('5 < t2.y', binop('<', const(5), ident('t2.y', tinfo)), True),
        ('t2.y >= 5', binop('>=', ident('t2.y', tinfo), const(5)), True),
    ]
    for label, node, want in probes:
        tinfo.attrs['conditions'] = []
        stubs = base_stubs()
        stubs['self.get_table_for_column'] = lambda it, c: c.attrs.get('_table') if isinstance(c, Obj) else None
        it = interp_for(stubs)
        try:
            it.call_function(fn['check_node_condition'], [new_pjt(), node], {}, _env())
        except Raised as r:
            raise AnalysisError(f'check_node_condition raises {r.exc_name} on `{label}`')
        rows += 1
        got = len(tinfo.attrs['conditions']) > 0
        if want:
            ctx.ob('C08.pushable-shape', f'{label}:anchor', got, f'check_node_condition no longer registers `{label}` (anchor of the rule)', file=PJ,
                   line=fn['check_node_condition'].lineno)
            if got:
                c = tinfo.attrs['conditions'][0]
                def sig(n):
                    # canonical form: column first; swapping the sides of a comparison mirrors the operator
                    op = str(n.op).lower()
                    args = [(a.kind, a.attrs.get('value'), (a.attrs.get('parts') or [None])[-1]) for a in n.args]
                    if len(args) == 2 and args[0][0] != 'Identifier' and args[1][0] == 'Identifier':
                        mirror = {'<': '>', '>': '<', '<=': '>=', '>=': '<=', '=': '=', '!=': '!=', '<>': '<>'}
                        if op in mirror:
                            op, args = mirror[op], [args[1], args[0]]
                    return (op, args)
                ctx.ob('C08.pushable-shape', f'{label}:same-comparison', sig(c) == sig(node),
                       f'the filter registered for the table fetch is not the comparison of the query: `{_show(node)}` became `{_show(c)}` (only the table '
                       f'qualifier of the column may be dropped): the fetch returns other rows than the WHERE clause selects', file=PJ,
                       line=fn['check_node_condition'].lineno, witness='select * from int1.a join int2.b on a.id = b.id where 5 < b.y')
                ctx.ob('C08.pushable-shape', f'{label}:copy', c is not node and getattr(c, '_orig_node', None) is node,
                       'the registered filter must be a copy that remembers its original node (the original stays in the outer query)', file=PJ,
                       line=fn['check_node_condition'].lineno)
        else:
            ctx.ob('C08.pushable-shape', label, not got,
                   f'check_node_condition registers `{label}` as a filter of the table fetch: '
                   + ('`IS NULL` is true for the rows an outer join adds, so checking it before the join keeps rows the query rejects'
                      if 'NULL' in label else 'it is not a comparison of this table\'s column with a constant'),
                   file=PJ, line=fn['check_node_condition'].lineno, witness='select * from int1.a left join int2.b on a.id = b.id where b.y is null')
    # ---- on-clause-side --------------------------------------------------------------------------------------------------------------
    vocab = join_vocabulary(ctx) + ['RIGHT OUTER JOIN', None]
    ctx.setcount('join_kinds', len(vocab))
    for kind in vocab:
        other = Obj('TableInfo', conditions=[], table=ident('a'), index=0, join_condition=None, join_type=None)
        me = Obj('TableInfo', conditions=[], table=ident('b'), index=1, join_type=kind)
        foreign = binop('=', ident('a.z', other), const(2))
        mine = binop('=', ident('b.y', me), const(1))
        on = binop('and', binop('and', binop('=', ident('a.id', other), ident('b.id', me)), mine), foreign)
        me.attrs['join_condition'] = on
        stubs = base_stubs()
        stubs['self.get_table_for_column'] = lambda it, c: c.attrs.get('_table') if isinstance(c, Obj) else None
        stubs['self.add_plan_step'] = lambda it, s: s
        stubs['SubSelectStep'] = lambda it, *a, **k: Obj('SubSelectStep', result='R-sub', args=a)
        stubs['Parameter'] = lambda it, v: Obj('Parameter', value=v)
        self_ = new_pjt(tables_fetch_step={0: Obj('FetchDataframeStep', result='R0')})
        it = interp_for(stubs)
        try:
            res = it.call_function(fn['get_filters_from_join_conditions'], [self_, me], {}, _env())
        except Raised as r:
            raise AnalysisError(f'get_filters_from_join_conditions raises {r.exc_name} for join kind {kind}')
        rows += 1
        ctx.ob('C08.on-clause-side', f'{kind}:own-columns-only', not any(c is foreign for c in (res or [])),
               f'{kind}: the ON conjunct `a.z = 2` speaks about another table but is put into the fetch of table b (which has no such column, or a different one)',
               file=PJ, line=fn['get_filters_from_join_conditions'].lineno, witness='select * from int1.a join int2.b on a.id = b.id and a.z = 2')
        if kind in ('JOIN', 'INNER JOIN', 'LEFT JOIN'):
            ctx.ob('C08.on-clause-side', f'{kind}:own-constant-filter', any(c is mine for c in (res or [])),
                   f'{kind}: the ON conjunct b.y = 1 is no longer used as filter of b (anchor)', file=PJ, line=fn['get_filters_from_join_conditions'].lineno)
        keeps_right = kind not in ('JOIN', 'INNER JOIN', 'CROSS JOIN', 'LEFT JOIN', 'LEFT OUTER JOIN')
        if keeps_right:
            ctx.ob('C08.on-clause-side', str(kind), not res,
                   f'a {kind} keeps the rows of its right table that have no match, but get_filters_from_join_conditions derives {len(res or [])} '
                   f'filter(s) for the fetch of that table from ON (constant comparison / `col IN (values of the left side)`): exactly the unmatched '
                   f'rows the join must return are never fetched', file=PJ, line=fn['get_filters_from_join_conditions'].lineno,
                   witness=f'select * from int1.a {str(kind).lower()} int2.b on a.id = b.id and b.y = 1')
        elif kind in ('JOIN', 'INNER JOIN', 'LEFT JOIN'):
            ctx.ob('C08.on-clause-side', f'{kind}:anchor', bool(res), f'no ON-derived filter for {kind} any more (anchor; the rule would be vacuous)',
                   file=PJ, line=fn['get_filters_from_join_conditions'].lineno)
    # ON shapes: only a top-level conjunct of ON restricts the fetched table
    for label, mk in (('NOT (b.y = 1)', lambda me_, other_: Obj('UnaryOperation', op='not', args=[binop('=', ident('b.y', me_), const(1))], alias=None)),
                      ('a.id = b.id AND NOT (b.y = 1)', lambda me_, other_: binop('and', binop('=', ident('a.id', other_), ident('b.id', me_)),
                                                                                 Obj('UnaryOperation', op='not', args=[binop('=', ident('b.y', me_), const(1))], alias=None))),
                      ('b.y = 1 OR b.z = 2', lambda me_, other_: binop('or', binop('=', ident('b.y', me_), const(1)), binop('=', ident('b.z', me_), const(2)))),
                      ('coalesce(b.y = 1)', lambda me_, other_: Obj('Function', op='coalesce', args=[binop('=', ident('b.y', me_), const(1))], alias=None, distinct=False,
                                                                    from_arg=None, namespace=None)),
                      ('b.y BETWEEN 1 AND 2 AND b.z = 1', lambda me_, other_: binop('and', Obj('BetweenOperation', op='between', args=[ident('b.y', me_), const(1), const(2)],
                                                                                                alias=None), binop('=', ident('b.z', me_), const(1))))):
        other = Obj('TableInfo', conditions=[], table=ident('a'), index=0, join_condition=None, join_type=None)
        me = Obj('TableInfo', conditions=[], table=ident('b'), index=1, join_type='INNER JOIN')
        on = mk(me, other)
        me.attrs['join_condition'] = on
        inner = [x for x in _all_nodes(on) if isinstance(x, Obj) and x.kind == 'BinaryOperation' and str(x.op) == '=' and x is not on]
        top = _conjuncts(on)
        stubs = base_stubs()
        stubs['self.get_table_for_column'] = lambda it, c: c.attrs.get('_table') if isinstance(c, Obj) else None
        stubs['self.add_plan_step'] = lambda it, s_: s_
        stubs['SubSelectStep'] = lambda it, *a, **k: Obj('SubSelectStep', result='R-sub', args=a)
        stubs['Parameter'] = lambda it, v: Obj('Parameter', value=v)
        self_ = new_pjt(tables_fetch_step={0: Obj('FetchDataframeStep', result='R0')})
        it = interp_for(stubs)
        try:
            res = it.call_function(fn['get_filters_from_join_conditions'], [self_, me], {}, _env()) or []
        except Raised as r:
            raise AnalysisError(f'get_filters_from_join_conditions raises {r.exc_name} for ON {label}')
        rows += 1
        nested = [c for c in res if any(c is x for x in inner) and not any(c is t for t in top)]
        ctx.ob('C08.on-clause-side', f'ON {label}', not nested,
               f'ON {label}: a comparison that is not a top-level conjunct of ON ({[_show(c) for c in nested]}) is used as filter of the fetched table: under NOT / OR / a '
               f'function it does not restrict the join on its own', file=PJ, line=fn['get_filters_from_join_conditions'].lineno,
               witness='select * from int1.a join int2.b on not (b.y = 1)')
    # a chain of three tables whose key columns share a name: each semi-join filter takes the values of the column of the table it names -------------------
    ta = Obj('TableInfo', conditions=[], table=ident('a'), index=0, join_condition=None, join_type=None)
    tb = Obj('TableInfo', conditions=[], table=ident('b'), index=1, join_type='INNER JOIN')
    tc = Obj('TableInfo', conditions=[], table=ident('c'), index=2, join_type='INNER JOIN')
    tb.attrs['join_condition'] = binop('=', ident('b.customer_id', tb), ident('a.id', ta))
    tc.attrs['join_condition'] = binop('=', ident('c.order_id', tc), ident('b.id', tb))
    self_ = new_pjt()
    init_ = fn.get('__init__')
    added_steps = []
    stubs = base_stubs()
    stubs['self.get_table_for_column'] = lambda it, c: c.attrs.get('_table') if isinstance(c, Obj) else None
    stubs['self.add_plan_step'] = lambda it, s_: (added_steps.append(s_), s_)[1]
    stubs['SubSelectStep'] = lambda it, q, df, **k: Obj('SubSelectStep', query=q, dataframe=df, result=Obj('Result', _of=len(added_steps)), **k)
    stubs['Parameter'] = lambda it, v: Obj('Parameter', value=v)
    try:
        if init_ is not None:
            interp_for(stubs).call_function(init_, [self_, Obj('QueryPlanner')], {}, _env())
        self_.attrs['tables_fetch_step'] = {0: Obj('FetchDataframeStep', result='R-a'), 1: Obj('FetchDataframeStep', result='R-b')}
        got = []
        for me_ in (tb, tc):
            res = interp_for(stubs).call_function(fn['get_filters_from_join_conditions'], [self_, me_], {}, _env()) or []
            ins = [c for c in res if isinstance(c, Obj) and c.kind == 'BinaryOperation' and str(c.op).lower() == 'in']
            desc = None
            if len(ins) == 1 and isinstance(ins[0].args[1], Obj) and ins[0].args[1].kind == 'Parameter':
                res_obj = ins[0].args[1].value
                step = next((s_ for s_ in added_steps if s_.attrs.get('result') is res_obj), None)
                if step is not None:
                    tcol = step.query.targets[0].parts[-1] if step.query.targets else None
                    desc = (ins[0].args[0].parts[-1], tcol, step.attrs.get('dataframe'), bool(step.query.attrs.get('distinct')))
            got.append(desc)
    except Raised as r:
        got = f'raises {r.exc_name}'
    rows += 1
    want = [('customer_id', 'id', 'R-a', True), ('order_id', 'id', 'R-b', True)]
    ctx.ob('C08.semi-join-source', 'a JOIN b ON b.customer_id = a.id JOIN c ON c.order_id = b.id', got == want,
           f'the semi-join filters of the chain are {got}, expected {want} (column filtered, column whose distinct values are taken, result they are taken from): the key '
           f'values for the third table come from the SECOND table\'s `id`, not from another table\'s column of the same name', file=PJ,
           line=fn['get_filters_from_join_conditions'].lineno, witness='select * from i1.customers a join i2.orders b on b.customer_id = a.id join i3.items c on c.order_id = b.id')
    # get_join_sequence attaches condition and kind of the join whose right side the table is
    for kind in ('LEFT JOIN', 'RIGHT JOIN'):
        cond1, cond2 = binop('=', ident('a.x'), ident('b.x')), binop('=', ident('b.x'), ident('c.x'))
        j1 = Obj('Join', left=ident('a'), right=ident('b'), condition=cond1, join_type='INNER JOIN', implicit=False)
        j2 = Obj('Join', left=j1, right=ident('c'), condition=cond2, join_type=kind, implicit=False)
        made = []

        def resolve(it, node):
            t = Obj('TableInfo', aliases=[tuple(node.parts)], conditions=[], table=node, join_condition=None, join_type=None, index=None, predictor_info=None,
                    sub_select=None, integration='x')
            made.append(t)
            return t
        stubs = base_stubs()
        stubs['self.resolve_table'] = resolve
        stubs['self.planner.get_predictor'] = lambda it, n: None
        self_ = new_pjt(tables_idx={}, tables=[])
        it = interp_for(stubs)
        it.stubs['self.get_join_sequence'] = lambda itp, *a, **k: itp.call_function(fn['get_join_sequence'], [self_] + list(a), dict(k), _env())
        seq = it.call_function(fn['get_join_sequence'], [self_, j2], {}, _env())
        rows += 1
        ta, tb, tc = made
        ok = ta.join_condition is None and tb.join_condition is cond1 and tc.join_condition is cond2 \
            and (tb.join_type or '').upper() == 'INNER JOIN' and (tc.join_type or '').upper() == kind
        ctx.ob('C08.on-clause-side', f'get_join_sequence:{kind}', ok,
               f'get_join_sequence must give each table the ON condition and the kind of the join it is the right side of (left-most table: none); '
               f'got a:{_show(ta.join_condition)} b:{tb.join_type}/{_show(tb.join_condition)} c:{tc.join_type}/{_show(tc.join_condition)}', file=PJ,
               line=fn['get_join_sequence'].lineno)
        ctx.ob('C08.on-clause-side', f'get_join_sequence:order:{kind}', [getattr(x, 'kind', None) for x in seq] == ['TableInfo', 'TableInfo', 'Join', 'TableInfo', 'Join'],
               'join sequence must be table, table, join, table, join', file=PJ, line=fn['get_join_sequence'].lineno)
    # ---- limit gate ----------------------------------------------------------------------------------------------------------------------
    def T():
        return Obj('TableInfo', predictor_info=None, sub_select=None)

    def M():
        return Obj('TableInfo', predictor_info={'name': 'm'}, sub_select=None)

    def S():
        return Obj('TableInfo', predictor_info=None, sub_select=select_ctor(None))

    def J(k):
        return Obj('Join', join_type=k)
    kinds = ['LEFT JOIN', 'INNER JOIN', 'RIGHT JOIN', 'FULL JOIN', 'JOIN', 'CROSS JOIN']
    seqs = []
    for k in kinds:
        seqs.append((f'T,T,J[{k}]', [T(), T(), J(k)]))
        seqs.append((f'T,S,J[{k}]', [T(), S(), J(k)]))
        seqs.append((f'T,M,J[{k}]', [T(), M(), J(k)]))
        seqs.append((f'S,T,J[{k}]', [S(), T(), J(k)]))
        seqs.append((f'S,M,J[{k}],T,J[LEFT JOIN]', [S(), M(), J(k), T(), J('LEFT JOIN')]))
        for k2 in ('LEFT JOIN', 'INNER JOIN'):
            seqs.append((f'T,T,J[{k}],T,J[{k2}]', [T(), T(), J(k), T(), J(k2)]))
            seqs.append((f'T,T,J[{k}],M,J[{k2}]', [T(), T(), J(k), M(), J(k2)]))
    target_shapes = {
        'columns': [ident('t1.a')], 'star': [Obj('Star')],
        'count(*)': [Obj('Function', op='count', args=[Obj('Star')], alias=None, distinct=False, from_arg=None, namespace=None)],
        'a + sum(b)': [binop('+', ident('t1.a'), Obj('Function', op='sum', args=[ident('t1.b')], alias=None, distinct=False, from_arg=None, namespace=None))],
        'window': [Obj('WindowFunction', function=Obj('Function', op='row_number', args=[], alias=None, distinct=False, from_arg=None, namespace=None), partition=None,
                       order_by=None, alias=None, modifier=None)],
    }
    gate_rows = 0
    for (limit, group_by, having, distinct, tname), (sname, seq) in itertools.product(
            itertools.product((None, 'set'), (None, 'set'), (None, 'set'), (False, True), list(target_shapes)), seqs):
        q = select_ctor(None, limit=const(5) if limit else None, group_by=[ident('t1.a')] if group_by else None,
                        having=cmp_('t1.a') if having else None, distinct=distinct, targets=target_shapes[tname])
        self_ = new_pjt(query_context={})
        it = interp_for(base_stubs())
        try:
            it.call_function(fn['check_use_limit'], [self_, q, seq], {}, _env())
        except Raised as r:
            raise AnalysisError(f'check_use_limit raises {r.exc_name}')
        gate_rows += 1
        use = self_.attrs['query_context'].get('use_limit')
        ctx.need(use in (True, False), 'check_use_limit did not set query_context[use_limit]')
        if not use:
            continue
        label = f'limit={limit} group_by={group_by} having={having} distinct={distinct} targets={tname} joins={sname}'
        for clause, bad, why in (
                ('requires-limit', limit is None, 'there is no LIMIT (ORDER BY / OFFSET alone would be moved)'),
                ('no-group-by', group_by is not None, 'GROUP BY aggregates the joined rows: cutting the first table first changes the groups'),
                ('no-having', having is not None, 'HAVING filters groups of joined rows'),
                ('no-distinct', distinct, 'DISTINCT removes duplicates of joined rows: LIMIT counts distinct rows'),
                ('no-aggregate', tname in ('count(*)', 'a + sum(b)', 'window'), 'an aggregate / window function in the targets is computed over the joined rows')):
            if bad:
                ctx.ob('C08.limit-gate', clause, False,
                       f'check_use_limit allows LIMIT to be moved into the fetch of the first table although {why} [{label}]', file=PJ,
                       line=fn['check_use_limit'].lineno, witness='select t1.a, count(*) from int1.t1 join int2.t2 on ... group by t1.a limit 3')
        # the LIMIT goes into the fetch of the first plain table: it must be the first member of the join, not one that follows a sub-select (its rows would be cut
        # on the right side of a join)
        first_plain = next((i for i, x in enumerate(seq) if x.kind == 'TableInfo' and x.attrs.get('predictor_info') is None and x.attrs.get('sub_select') is None), None)
        sub_before = first_plain is not None and any(x.kind == 'TableInfo' and x.attrs.get('sub_select') is not None for x in seq[:first_plain])
        ctx.ob('C08.limit-gate', 'first-table-is-first-member', not sub_before,
               f'check_use_limit allows LIMIT to be moved into the fetch of the first plain table although a sub-select stands before it in the join [{label}]: the table is '
               f'the RIGHT side of a join there, and its first rows are not the rows the join needs', file=PJ, line=fn['check_use_limit'].lineno,
               witness='select * from (select * from int2.s1) s left join int1.t1 a on a.id = s.id limit 3')
        # every join with a data table / sub-select on its right must keep all rows of the limited (left) side and no others: LEFT JOIN
        items = seq
        for i, itm in enumerate(items):
            if itm.kind != 'Join':
                continue
            right = items[i - 1]
            if right.attrs.get('predictor_info') is not None:
                continue        # a model adds columns to the rows it is given
            if itm.join_type.upper() in LEFT_KINDS:
                continue
            followed = any(x.kind == 'TableInfo' and x.attrs.get('predictor_info') is None and x.attrs.get('sub_select') is None for x in items[i + 1:])
            if followed:
                ctx.ob('C08.limit-gate', f'join-kind-accepted:{itm.join_type}', False,
                       f'check_use_limit allows LIMIT below a {itm.join_type} [{label}]: the join drops or adds rows, so the first LIMIT rows of the first '
                       f'table are not the rows the query returns', file=PJ, line=fn['check_use_limit'].lineno)
            else:
                ctx.ob('C08.limit-gate', 'join-not-inspected-unless-a-table-follows', False,
                       f'check_use_limit inspects the kind of a join only when it meets the next plain table, so the last join (and a join followed only '
                       f'by models / sub-selects) is never inspected: LIMIT/OFFSET are moved below e.g. an INNER JOIN [{label}]', file=PJ,
                       line=fn['check_use_limit'].lineno, witness='select * from int1.t1 a join int2.t2 b on a.id = b.id limit 3')
    ctx.ob('C08.limit-gate', 'table', True, '')
    rows += gate_rows
    ctx.setcount('limit_gate_rows', gate_rows)
    # ---- limit push (process_table) ------------------------------------------------------------------------------------------------------
    push_rows = 0
    for use_limit, n_conj, n_mine, has_or, order, offset in itertools.product(
            (True, False), (0, 1, 2), (0, 1, 2), (False, True), (None, 'mine', 'other', 'mixed', 'expression', 'other-same-name'), (None, 7)):
        if n_mine > n_conj:
            continue
        me_table = ident('t1')
        me = Obj('TableInfo', integration='int1', table=me_table, conditions=[cmp_(f't1.c{i}') for i in range(n_mine)], index=0, join_condition=None,
                 join_type=None)
        # 'other-same-name': the second table is int2.t1 - once the database part is off, its table Identifier EQUALS this table's
        other = Obj('TableInfo', integration='int2', table=ident('t1' if order == 'other-same-name' else 't2'), conditions=[], index=1)
        mine_conds = list(me.attrs['conditions'])

        def ob(name, t):
            return Obj('OrderBy', field=ident(name, t), direction='default', nulls='default')
        order_by = {None: None, 'mine': [ob('t1.a', me)], 'other': [ob('t2.b', other)], 'mixed': [ob('t1.a', me), ob('t2.b', other)], 'other-same-name': [ob('int2.t1.b', other)],
                    'expression': [Obj('OrderBy', field=binop('+', ident('t1.a', me), const(1)), direction='default', nulls='default')]}[order]
        q = select_ctor(None, limit=const(5), offset=const(offset) if offset else None, order_by=order_by)
        captured = []
        join_filter = binop('in', ident('id'), Obj('Parameter', value='R'))
        stubs = base_stubs()
        stubs['self.get_filters_from_join_conditions'] = lambda it, item: [join_filter]
        stubs['self.get_table_for_column'] = lambda it, c: c.attrs.get('_table') if isinstance(c, Obj) and c.kind == 'Identifier' else None
        stubs['self.planner.get_integration_select_step'] = lambda it, s: (captured.append(s), Obj('FetchDataframeStep', query=s, result='R'))[1]
        stubs['self.add_plan_step'] = lambda it, s: s
        # the bookkeeping entries are the ones check_query_conditions itself creates for a WHERE of n_conj conjuncts; the entries this table varies are then set
        base_ctx = new_pjt(query_context={})
        w_ = None
        for i in range(n_conj):
            w_ = cmp_(f't9.w{i}') if w_ is None else binop('and', w_, cmp_(f't9.w{i}'))
        st0 = base_stubs()
        st0['self.check_node_condition'] = lambda it, n: None
        try:
            interp_for(st0).call_function(fn['check_query_conditions'], [base_ctx, select_ctor(None, where=w_)], {}, _env())
        except Raised as r:
            raise AnalysisError(f'check_query_conditions raises {r.exc_name}')
        qc = dict(base_ctx.attrs['query_context'])
        qc.update({'use_limit': use_limit, 'binary_ops': ['and', 'or'] if has_or else ['and'], count_key: n_conj})
        self_ = new_pjt(query_context=qc, tables_fetch_step={}, step_stack=[])
        it = interp_for(stubs)
        try:
            it.call_function(fn['process_table'], [self_, me, q], {}, _env())
        except Raised as r:
            raise AnalysisError(f'process_table raises {r.exc_name}')
        push_rows += 1
        ctx.need(len(captured) == 1, 'process_table did not build exactly one fetch')
        f = captured[0]
        label = f'use_limit={use_limit} where_conjuncts={n_conj} filters_of_this_table={n_mine} or_present={has_or} order_by={order} offset={offset}'
        fetched = _conjuncts(f.where)
        mine_used = [c for c in fetched if any(c is m for m in mine_conds)]
        all_used = (not has_or and n_mine == n_conj) or n_conj == 0
        pushed = f.limit is not None
        ok_order = order in (None, 'mine')
        ctx.ob('C08.limit-push', 'limit-needs-gate', not (pushed and not use_limit), f'LIMIT is moved into the fetch although the gate is off [{label}]',
               file=PJ, line=fn['process_table'].lineno)
        ctx.ob('C08.limit-push', 'limit-needs-all-filters', not (pushed and not all_used),
               f'LIMIT is moved into the fetch of the first table although {n_conj - len(mine_used)} WHERE conjunct(s) are evaluated only after the join '
               f'[{label}]: the first rows of the table are cut before the rows the query rejects are removed, so fewer rows than LIMIT come back',
               file=PJ, line=fn['process_table'].lineno, witness='select * from int1.t1 a join int2.t2 b on a.id = b.id where b.y = 2 limit 3')
        ctx.ob('C08.limit-push', 'limit-needs-own-order', not (pushed and not ok_order),
               f'LIMIT is moved into the fetch although the query is ordered by columns of another table / an expression [{label}]', file=PJ,
               line=fn['process_table'].lineno)
        ctx.ob('C08.limit-push', 'offset-moved-into-first-fetch', f.offset is None,
               f'OFFSET is moved into the fetch of the first table [{label}]: there it skips rows of that table, the query skips rows of the JOIN result - a skipped row '
               f'of the table with several partners (or with none under an inner join) shifts the window, so other rows come back', file=PJ,
               line=fn['process_table'].lineno, witness='select * from int1.a left join int2.b on a.id = b.a_id order by a.id limit 2 offset 1   -- b has two rows for the first a')
        ctx.ob('C08.limit-push', 'offset-only-with-limit', not (f.offset is not None and not pushed), f'OFFSET is moved without LIMIT [{label}]', file=PJ,
               line=fn['process_table'].lineno)
        ctx.ob('C08.limit-push', 'offset-moved-not-copied', (f.offset is None) == (q.offset is not None or offset is None),
               f'OFFSET must be in exactly one place: fetch={_show(f.offset)} outer={_show(q.offset)} [{label}]', file=PJ, line=fn['process_table'].lineno)
        ctx.ob('C08.limit-push', 'order-only-with-limit', not (f.order_by and not pushed), f'ORDER BY is moved without LIMIT [{label}]', file=PJ,
               line=fn['process_table'].lineno)
        if pushed and order == 'mine':
            ctx.ob('C08.limit-push', 'order-with-limit', bool(f.order_by) and len(f.order_by) == 1 and f.order_by[0].field.parts == ['a'],
                   f'LIMIT is moved but the ordering that selects the first rows is not [{label}]', file=PJ, line=fn['process_table'].lineno)
        ctx.ob('C08.limit-push', 'outer-limit-kept', q.limit is not None, f'the outer LIMIT is removed [{label}]', file=PJ, line=fn['process_table'].lineno)
        # filters of the fetch: only this table's registered conjuncts (none when OR is present) and the ON-derived ones
        foreign = [c for c in fetched if not any(c is m for m in mine_conds) and c is not join_filter]
        ctx.ob('C08.fetch-filters', 'only-registered', not foreign, f'the fetch has filters that were not registered for this table: {[_show(c) for c in foreign]} [{label}]',
               file=PJ, line=fn['process_table'].lineno)
        ctx.ob('C08.fetch-filters', 'none-under-or', not (has_or and mine_used), f'per-table filters are applied although WHERE contains OR [{label}]', file=PJ,
               line=fn['process_table'].lineno)
        ctx.ob('C08.fetch-filters', 'integration-qualified', f.from_table.parts[:1] == ['int1'], 'the fetch must name the table inside its integration', file=PJ,
               line=fn['process_table'].lineno)
    rows += push_rows
    ctx.setcount('limit_push_rows', push_rows)
    # ---- outer re-apply --------------------------------------------------------------------------------------------------------------------
    atoms = {'group_by': [ident('a')], 'order_by': [Obj('OrderBy', field=ident('a'))], 'having': cmp_('a'), 'distinct': True, 'where': cmp_('t1.a'),
             'limit': const(1), 'offset': const(1)}
    cases = [('none', {})] + [(k, {k: v}) for k, v in atoms.items()] + [('two targets', {'targets': [Obj('Star'), ident('a')]}), ('column target', {'targets': [ident('a')]})]
    for label, kw in cases:
        q = select_ctor(None, targets=[Obj('Star')], from_table=Obj('Join'), using={'a': 1}, cte=[1])
        for k, v in kw.items():
            setattr(q, k, v)
        added = []
        join_step = Obj('JoinStep', result='R-join')
        stubs = base_stubs()
        stubs['self.plan_join_tables'] = lambda it, query: join_step
        stubs['self.planner.plan.add_step'] = lambda it, s: (added.append(s), s)[1]
        stubs['QueryStep'] = lambda it, query, from_table=None, **k: Obj('QueryStep', query=query, from_table=from_table)
        it = interp_for(stubs)
        res = it.call_function(fn['plan'], [new_pjt(tables_idx=None), q], {}, _env())
        rows += 1
        if label == 'none':
            ctx.ob('C08.outer-reapply', 'none', res is join_step and not added, 'SELECT * without clauses: the join result is the answer', file=PJ, line=fn['plan'].lineno)
            continue
        ok = len(added) == 1 and res is added[0] and added[0].from_table == 'R-join'
        same = False
        if ok:
            q2 = added[0].query
            same = q2 is not q and q2.from_table is None and all(_same(getattr(q2, f), getattr(q, f)) for f in
                                                                 ('targets', 'where', 'group_by', 'having', 'order_by', 'limit', 'offset', 'distinct'))
        ctx.ob('C08.outer-reapply', label, ok and same,
               f'plan(): with {label} present the complete outer query (targets, WHERE, GROUP BY, HAVING, ORDER BY, LIMIT, OFFSET, DISTINCT) must be '
               f're-applied to the join result in one QueryStep on a copy; steps added: {len(added)}', file=PJ, line=fn['plan'].lineno,
               witness='select distinct a.x from int1.a join int2.b on ...')
    rows += check_where_kept(ctx, fn, cmp_)
    check_condition_scope(ctx, fn, 'C08.condition-scope')
    # ---- a sub-select member of a join: the outer conditions on it are applied to its RESULT, never written into it -------------------------------------
    psub = fn.get('process_subselect')
    ctx.need(psub is not None, 'PlanJoinTablesQuery.process_subselect not found')
    # in a plain `select * / columns from table [where ..]` a filter on the output columns may equally be evaluated inside (it commutes); with renamed columns,
    # grouping, LIMIT, OFFSET or a window it may not
    SOUND_INSIDE = ('star', 'plain columns')
    for shape, inner_where, nconds in itertools.product(('renaming columns', 'star', 'plain columns', 'grouped', 'star with LIMIT', 'star with OFFSET',
                                                         'star with ORDER BY and LIMIT', 'columns with LIMIT'), (None, 'w'), (0, 1, 2)):
        if shape == 'renaming columns':
            targets = [Obj('Identifier', parts=['id'], alias=None), Obj('Identifier', parts=['y'], alias=Obj('Identifier', parts=['x'], alias=None))]
        elif shape.startswith('star'):
            targets = [Obj('Star')]
        else:
            targets = [Obj('Identifier', parts=['id'], alias=None), Obj('Identifier', parts=['x'], alias=None)]
        sub = select_ctor(None, targets=targets, from_table=Obj('Identifier', parts=['int2', 't2'], alias=None),
                          where=binop('>', ident('z'), const(0)) if inner_where else None, group_by=[ident('id')] if shape == 'grouped' else None,
                          limit=const(2) if 'LIMIT' in shape else None, offset=const(1) if 'OFFSET' in shape else None,
                          order_by=[Obj('OrderBy', field=ident('id'), direction='default', nulls='default')] if 'ORDER BY' in shape else None,
                          alias=Obj('Identifier', parts=['s'], alias=None), parentheses=True)
        sub0 = sub.clone()
        conds = [binop('=', ident('x'), const(1)), binop('<', ident('id'), const(9))][:nconds]
        item = Obj('TableInfo', integration=None, table=Obj('Identifier', parts=['s'], alias=Obj('Identifier', parts=['s'], alias=None)), aliases=[('s',)],
                   conditions=list(conds), sub_select=sub, predictor_info=None, join_condition=None, join_type=None, index=1)
        planned, added = [], []
        stubs = base_stubs()
        stubs['self.planner.plan_select'] = lambda it, q, **k: (planned.append(q.clone()), Obj('FetchDataframeStep', result='R-sub'))[1]
        stubs['self.planner.get_predictor'] = lambda it, n: None
        stubs['self.close_partition'] = lambda it: None
        stubs['self.add_plan_step'] = lambda it, st: (added.append(st), st)[1]
        stubs['SubSelectStep'] = lambda it, q, res, **k: Obj('SubSelectStep', query=q, dataframe=res, **k)
        it = interp_for(stubs)
        it.isa.update({'Star': set(), 'Data': set()})
        self_ = new_pjt(planner=Obj('QueryPlanner'), step_stack=[], query_context={})
        label = f'sub-select {shape}, inner WHERE {"present" if inner_where else "absent"}, {nconds} outer condition(s)'
        try:
            it.call_function(psub, [self_, item], {}, _env())
        except Raised as r:
            ctx.ob('C08.subselect-kept', label, False, f'[{label}] process_subselect raises {r.exc_name}', file=PJ, line=psub.lineno)
            continue
        rows += 1
        same_but_where = len(planned) == 1 and all(_same(getattr(planned[0], f), getattr(sub0, f)) for f in ('targets', 'group_by', 'having', 'order_by', 'limit', 'offset',
                                                                                                            'distinct', 'from_table'))
        outer = added[0].query.where if len(added) == 1 and isinstance(added[0], Obj) and isinstance(added[0].attrs.get('query'), Obj) else None
        inside = [c for c in (_conjuncts(planned[0].where) if planned else []) if not any(_same(c, c0) for c0 in _conjuncts(sub0.where))]
        outside = _conjuncts(outer)
        kept_inner = planned and all(any(_same(c, c0) for c in _conjuncts(planned[0].where)) for c0 in _conjuncts(sub0.where))
        once = sorted(map(repr, inside + outside)) == sorted(map(repr, conds))
        same = bool(same_but_where and kept_inner and (not inside or shape in SOUND_INSIDE))
        applied = len(added) == 1 and once and added[0].attrs.get('dataframe') == 'R-sub'
        ctx.ob('C08.subselect-kept', label, same and applied,
               f'[{label}] the sub-select that is planned {"is" if same else "is NOT"} the user\'s sub-select and the outer conditions {"are" if applied else "are NOT"} '
               f'each applied exactly once: a condition of the outer query names the OUTPUT rows and columns of the sub-select (after renaming / aggregation / LIMIT / '
               f'OFFSET); written into the sub-select\'s own WHERE it filters base columns of the same name, or filters before the LIMIT cuts', file=PJ, line=psub.lineno,
               witness='select * from int1.t1 a join (select id, y as x from int2.t2) s on a.id = s.id where s.x = 1')
    # ---- a CTE shadows only an unqualified name ------------------------------------------------------------------------------------------
    QP = 'mindsdb_sql/planner/query_planner.py'
    qp = class_named(ctx.src.tree(QP), 'QueryPlanner')
    ctx.need(qp is not None, 'QueryPlanner not found')
    gis = function_named(qp, 'get_integration_select_step')
    ctx.need(gis is not None, 'get_integration_select_step not found')
    for label, parts, default_ns, want in (
            ('sales (CTE name, unqualified)', ['sales'], 'mindsdb', 'cte'), ('int1.sales (table of int1 with the CTE\'s name)', ['int1', 'sales'], 'mindsdb', 'int1'),
            ('INT1.sales', ['INT1', 'sales'], 'mindsdb', 'int1'), ('orders (no CTE)', ['orders'], 'mindsdb', 'mindsdb'),
            ('mindsdb.sales (qualified with the default namespace)', ['mindsdb', 'sales'], 'mindsdb', 'cte-or-mindsdb')):
        tbl = ident('.'.join(parts))

        def resolve(it, node, _ns=default_ns):
            p = list(node.parts)
            db = _ns
            if len(p) > 1 and p[0].lower() in ('int1', 'int2', 'mindsdb'):
                db = p.pop(0).lower()
            return (db, Obj('Identifier', parts=p, alias=None))
        stubs = base_stubs()
        stubs['self.resolve_database_table'] = resolve
        stubs['self.prepare_integration_select'] = lambda it, db, q: None
        stubs['SubSelectStep'] = lambda it, q, res, **k: Obj('SubSelectStep', query=q, dataframe=res, **k)
        stubs['FetchDataframeStep'] = lambda it, **k: Obj('FetchDataframeStep', **k)
        self_ = Obj('QueryPlanner', default_namespace=default_ns, cte_results={'sales': 'R-cte'})
        it = interp_for(stubs, file=QP)
        res = it.call_function(gis, [self_, select_ctor(None, from_table=tbl, targets=[Obj('Star')])], {}, _env())
        rows += 1
        got = 'cte' if res.kind == 'SubSelectStep' else res.attrs.get('integration')
        ok = got == want or (want == 'cte-or-mindsdb' and got in ('cte', 'mindsdb'))
        ctx.ob('C08.cte-scope', label, ok,
               f'with a CTE named `sales`, FROM {label} is planned as {got!r} but must be {want!r}: a CTE shadows only the unqualified name; a table of an '
               f'integration that happens to have the same name is a different table', file=QP, line=gis.lineno,
               witness='with sales as (select ...) select * from sales s join int1.sales t on ...')
    # ---- a select in FROM is planned as it is written: its ORDER BY / LIMIT / OFFSET / DISTINCT / grouping decide WHICH rows it returns, whatever the outer query
    # does with them afterwards
    pns = function_named(qp, 'plan_mdb_nested_select')
    if pns is None:
        ctx.note('QueryPlanner.plan_mdb_nested_select not found')
    else:
        nn = 0
        inner_opts = {'order_by': [Obj('OrderBy', field=ident('x'), direction='DESC', nulls='default')], 'limit': const(2), 'offset': const(1), 'where': cmp_('y'),
                      'group_by': [ident('x')], 'distinct': True}
        outer_opts = {'order_by': [Obj('OrderBy', field=ident('t.y'), direction='default', nulls='default')], 'limit': const(5), 'offset': const(3), 'where': cmp_('t.x'),
                      'distinct': True}
        for inner_set, outer_set in itertools.product([c for r_ in range(0, 4) for c in itertools.combinations(sorted(inner_opts), r_)],
                                                      [c for r_ in range(0, 3) for c in itertools.combinations(sorted(outer_opts), r_)]):
            inner = select_ctor(None, targets=[ident('x'), ident('y')], from_table=Obj('Identifier', parts=['int1', 't1'], alias=None),
                                alias=Obj('Identifier', parts=['t'], alias=None), parentheses=True, **{k: inner_opts[k] for k in inner_set})
            reference = inner.clone()
            outer = select_ctor(None, targets=[Obj('Star')], from_table=inner, **{k: outer_opts[k] for k in outer_set})
            planned = []
            stubs = base_stubs()
            stubs['self.plan_select'] = lambda it, q, *a, **k: (planned.append(q), Obj('Step', result='R'))[1]
            stubs['self.plan_sub_select'] = lambda it, q, step, *a, **k: Obj('Step', result='R2')
            self_ = Obj('QueryPlanner', plan=Obj('QueryPlan', steps=[Obj('Step', result='R')]), default_namespace='mindsdb')
            it = interp_for(stubs, file=QP)
            try:
                it.call_function(pns, [self_, outer], {}, _env())
            except Raised as r:
                if r.exc_name in ('PlanningException', 'NotImplementedError'):
                    continue
                raise AnalysisError(f'plan_mdb_nested_select raises {r.exc_name}')
            nn += 1
            label = f'inner [{", ".join(inner_set) or "plain"}] / outer [{", ".join(outer_set) or "plain"}]'
            ok = len(planned) == 1 and all(_same(getattr(planned[0], f), getattr(reference, f)) for f in
                                           ('targets', 'from_table', 'where', 'group_by', 'having', 'order_by', 'limit', 'offset', 'distinct'))
            diff = [f for f in ('targets', 'from_table', 'where', 'group_by', 'having', 'order_by', 'limit', 'offset', 'distinct')
                    if planned and not _same(getattr(planned[0], f), getattr(reference, f))]
            ctx.ob('C08.nested-select-kept', label, ok,
                   f'[{label}] the select in FROM is planned with a different {diff or "number of plans (" + str(len(planned)) + ")"}: its own ORDER BY / LIMIT / OFFSET / DISTINCT / '
                   f'grouping decide which rows it returns; dropping or changing one because of a clause of the OUTER query returns other rows', file=QP, line=pns.lineno,
                   witness='select * from (select x, y from int1.t1 order by x desc limit 2) t order by t.y')
        rows += nn
        ctx.setcount('nested_select_rows', nn)
        ctx.floor('nested_select_rows', 300)
    for label, ok, msg, line in cte_roundtrip_rows(ctx):
        rows += 1
        ctx.ob('C08.cte-scope', label, ok, msg, file=QP, line=line, witness='with Tab as (select * from int1.t) select * from Tab a join int2.u b on a.id = b.id')
    # ---- api-type integration: which clauses go into the fetch and which stay outside ---------------------------------------------------------------
    pads = function_named(qp, 'plan_api_db_select')
    if pads is None:
        ctx.note('QueryPlanner.plan_api_db_select not found: selects from api-type integrations are not split any more')
    else:
        for group_by, having, distinct, offset, tname, limit in itertools.product((None, 'set'), (None, 'set'), (False, True), (None, 1), ('columns', 'count(*)', 'window'), (None, 2)):
            tgts = {'columns': [ident('x')], 'count(*)': [ident('x'), Obj('Function', op='count', args=[Obj('Star')], alias=None, distinct=False, from_arg=None, namespace=None)],
                    'window': [Obj('WindowFunction', function=Obj('Function', op='row_number', args=[], alias=None, distinct=False, from_arg=None, namespace=None),
                                   partition=None, order_by=None, alias=None, modifier=None)]}[tname]
            q = select_ctor(None, targets=tgts, from_table=Obj('Identifier', parts=['api1', 't'], alias=None), where=cmp_('y'),
                            group_by=[ident('x')] if group_by else None, having=cmp_('x') if having else None, distinct=distinct,
                            offset=const(offset) if offset else None, limit=const(limit) if limit else None,
                            order_by=[Obj('OrderBy', field=ident('x'), direction='default', nulls='default')])
            fetched, outer = [], []
            stubs = base_stubs()
            stubs['self.plan_integration_select'] = lambda it, s_: (fetched.append(s_.clone()), Obj('FetchDataframeStep', result='R'))[1]
            stubs['self.plan_sub_select'] = lambda it, s_, prev, **k: (outer.append(s_.clone()), Obj('SubSelectStep'))[1]
            it = interp_for(stubs, file=QP)
            it.isa.update({'Function': {'Operation'}, 'WindowFunction': set()})
            label = f'group_by={group_by} having={having} distinct={distinct} offset={offset} targets={tname} limit={limit}'
            try:
                it.call_function(pads, [Obj('QueryPlanner'), q], {}, _env())
            except Raised as r:
                ctx.ob('C08.api-split', label, False, f'plan_api_db_select raises {r.exc_name} [{label}]', file=QP, line=pads.lineno)
                continue
            rows += 1
            if len(fetched) != 1 or len(outer) != 1:
                ctx.ob('C08.api-split', label, False, f'plan_api_db_select does not produce one fetch and one outer select [{label}]', file=QP, line=pads.lineno)
                continue
            f_, o_ = fetched[0], outer[0]
            counts_fetched_rows = not (group_by or having or distinct or offset or tname != 'columns')
            problems = []
            if f_.limit is not None and not counts_fetched_rows:
                problems.append('LIMIT is sent to the api although it counts groups / distinct rows / rows after OFFSET / the row of an aggregate, not fetched rows')
            if limit and f_.limit is None and o_.limit is None:
                problems.append('the LIMIT is lost')
            if limit and f_.limit is not None and o_.limit is not None and offset:
                problems.append('LIMIT is applied before and after OFFSET')
            if f_.attrs.get('group_by') or f_.attrs.get('having') or f_.attrs.get('distinct') or f_.attrs.get('offset') is not None:
                problems.append('GROUP BY / HAVING / DISTINCT / OFFSET is sent to the api')
            for cl in ('group_by', 'having', 'offset'):
                if (q.attrs.get(cl) is None) != (o_.attrs.get(cl) is None):
                    problems.append(f'{cl} is not re-applied outside')
            if bool(o_.attrs.get('distinct')) != bool(distinct):
                problems.append('DISTINCT is not re-applied outside')
            if (f_.where is None) == (o_.where is None):
                problems.append('WHERE is applied twice or not at all')
            ctx.ob('C08.api-split', label, not problems,
                   f'[{label}] plan_api_db_select: {"; ".join(problems)}: the api returns other rows than the query counts', file=QP, line=pads.lineno,
                   witness='select x, count(*) from api1.t group by x limit 2')
    # ---- set operations and the outer query of nested / api / native selects ----------------------------------------------------------------
    pu = function_named(qp, 'plan_union')
    pss = function_named(qp, 'plan_sub_select')
    ctx.need(pu is not None and pss is not None, 'plan_union / plan_sub_select not found')
    for kind, want_op in (('Union', 'union'), ('Except', 'except'), ('Intersect', 'intersect')):
        for unique in (True, False):
            added = []
            left = select_ctor(None, targets=[Obj('Star')], from_table=Obj('Identifier', parts=['int1', 'a'], alias=None), limit=const(3), order_by=[Obj('OrderBy', field=ident('x'))])
            right = select_ctor(None, targets=[Obj('Star')], from_table=Obj('Identifier', parts=['int2', 'b'], alias=None))
            left0, right0 = left.clone(), right.clone()
            planned = []

            def plan_select(it, q, integration=None):
                planned.append(q)
                return Obj('FetchDataframeStep', result=f'R{len(planned)}')
            stubs = base_stubs()
            stubs['self.plan_select'] = plan_select
            stubs['self.plan.add_step'] = lambda it, s2: (added.append(s2), s2)[1]
            stubs['UnionStep'] = lambda it, **k: Obj('UnionStep', **k)
            it = interp_for(stubs, file=QP, isa_extra={'Union': {'CombiningQuery'}, 'Except': {'CombiningQuery'}, 'Intersect': {'CombiningQuery'}})
            res = it.call_function(pu, [Obj('QueryPlanner'), Obj(kind, left=left, right=right, unique=unique)], {}, _env())
            rows += 1
            ok = len(added) == 1 and res is added[0] and added[0].attrs.get('operation') == want_op and added[0].attrs.get('unique') is unique \
                and added[0].attrs.get('left') == 'R1' and added[0].attrs.get('right') == 'R2' and planned[0] is left and planned[1] is right
            ctx.ob('C08.set-operation', f'{kind}:unique={unique}:operands-unchanged', left == left0 and right == right0,
                   f'plan_union changes its operands before planning them ({kind}{"" if unique else " ALL"}): '
                   f'{[k for k in left0.attrs if left.attrs.get(k) != left0.attrs.get(k)] + [k for k in right0.attrs if right.attrs.get(k) != right0.attrs.get(k)]} - a clause '
                   f'added to a branch (e.g. DISTINCT) is evaluated before that branch\'s own ORDER BY / LIMIT and changes its rows', file=QP, line=pu.lineno,
                   witness='(select x from int1.a order by x limit 3) union select x from int2.b')
            ctx.ob('C08.set-operation', f'{kind}:unique={unique}', ok,
                   f'{kind}{"" if unique else " ALL"} must become one UnionStep(operation={want_op!r}, unique={unique}) over the results of its left and right operand in '
                   f'that order; got {[(a.kind, a.attrs.get("operation"), a.attrs.get("unique"), a.attrs.get("left"), a.attrs.get("right")) for a in added]}',
                   file=QP, line=pu.lineno, witness=f'select 1 {kind.lower()}{"" if unique else " all"} select 2')
    for label, kw in cases:
        q = select_ctor(None, targets=[Obj('Star')], from_table=Obj('Identifier', parts=['int1', 'tbl'], alias=Obj('Identifier', parts=['t'], alias=None)))
        for k, v in kw.items():
            setattr(q, k, v)
        added = []
        prev = Obj('FetchDataframeStep', result='R-prev')
        stubs = base_stubs()
        stubs['self.plan.add_step'] = lambda it, s2: (added.append(s2), s2)[1]
        stubs['SubSelectStep'] = lambda it, query, dataframe, **k: Obj('SubSelectStep', query=query, dataframe=dataframe, **k)
        it = interp_for(stubs, file=QP)
        res = it.call_function(pss, [Obj('QueryPlanner'), q, prev], {}, _env())
        rows += 1
        if label == 'none':
            ctx.ob('C08.sub-select-reapply', 'none', res is prev and not added, 'SELECT * without clauses over a fetched result: the fetched result is the answer', file=QP, line=pss.lineno)
            continue
        ok = len(added) == 1 and res is added[0] and added[0].dataframe == 'R-prev'
        same = False
        if ok:
            q2 = added[0].query
            same = q2 is not q and q2.from_table is None and added[0].attrs.get('table_name') == 't' and all(
                _same(getattr(q2, f), getattr(q, f)) for f in ('targets', 'where', 'group_by', 'having', 'order_by', 'limit', 'offset', 'distinct'))
        ctx.ob('C08.sub-select-reapply', label, ok and same,
               f'plan_sub_select(): with {label} present the outer query must be applied to the fetched result in one SubSelectStep on a copy that keeps every clause '
               f'and is addressed by the table alias; steps added: {len(added)}', file=QP, line=pss.lineno)
    ctx.setcount('truth_table_rows', rows)
    ctx.floor('truth_table_rows', 1500)
    ctx.floor('limit_gate_rows', 1000)
    ctx.floor('limit_push_rows', 150)
    ctx.floor('join_kinds', 10)


def check_condition_scope(ctx, fn, rule):
    """Which table a qualified column belongs to decides which fetch receives its condition.  get_join_sequence + resolve_table interpreted on join members whose
    aliases collide with the real names of other members, then get_table_for_column: the alias wins over the name of another (aliased) member, in either order."""
    gjs, gt = fn.get('get_join_sequence'), fn.get('get_table_for_column')
    ctx.need(gjs is not None and gt is not None, 'PlanJoinTablesQuery.get_join_sequence / get_table_for_column not found')
    n = 0
    scenarios = [
        ('int1.t AS a JOIN int2.a AS b', [(['int1', 't'], 'a'), (['int2', 'a'], 'b')], {'a.x': 0, 'A.x': 0, 'b.x': 1}),
        ('int1.a AS b JOIN int2.t AS a', [(['int1', 'a'], 'b'), (['int2', 't'], 'a')], {'a.x': 1, 'b.x': 0, 'B.x': 0}),
        ('int1.t AS a JOIN int2.u AS b JOIN int3.a AS c', [(['int1', 't'], 'a'), (['int2', 'u'], 'b'), (['int3', 'a'], 'c')], {'a.x': 0, 'b.x': 1, 'c.x': 2}),
        ('int1.orders JOIN int2.items AS orders2', [(['int1', 'orders'], None), (['int2', 'items'], 'orders2')], {'orders.x': 0, 'int1.orders.x': 0, 'orders2.x': 1}),
    ]
    for title, members_, cols in scenarios:
        members = [Obj('Identifier', parts=list(pp_), alias=(Obj('Identifier', parts=[al], alias=None) if al else None)) for pp_, al in members_]
        j = members[0]
        for m in members[1:]:
            j = Obj('Join', left=j, right=m, condition=None, join_type='join', implicit=False, alias=None)
        from .C10 import real_planner
        planner = real_planner(_CTX['ctx'], ['int1', 'int2', 'int3'], [], default_namespace='mindsdb')
        self_ = new_pjt(planner=planner, tables_idx={}, tables=[])
        stubs = base_stubs()
        stubs['self.planner.get_predictor'] = lambda it, n_: None
        stubs['copy.deepcopy'] = lambda it, x: x.clone() if isinstance(x, Obj) else x
        it = interp_for(stubs)
        it.isa.update({'Join': set(), 'Identifier': set()})
        try:
            it.call_function(gjs, [self_, j], {}, _env())
        except Raised as r:
            ctx.ob(rule, f'scope:{title}', False, f'get_join_sequence raises {r.exc_name} on {title}', file=PJ, line=gjs.lineno)
            continue
        by_alias = {}
        for ti in self_.tables:
            al = ti.table.alias.parts[-1] if ti.table.alias is not None else None
            for k_, (pp_, al_) in enumerate(members_):
                if al_ == al and [str(x).lower() for x in ti.table.parts][-1] == pp_[-1]:
                    by_alias[id(ti)] = k_
        for col, want in cols.items():
            got = interp_for(base_stubs()).call_function(gt, [self_, Obj('Identifier', parts=col.split('.'), alias=None)], {}, _env())
            gi = by_alias.get(id(got)) if got is not None else None
            n += 1
            ctx.ob(rule, f'scope:{title}:{col}', gi == want,
                   f'in `{title}` the column {col} is attributed to member {gi} ({"none" if got is None else _show(got.table)}), expected member {want}: a table with an '
                   f'alias is referenced by the alias; the real name of another member never takes the alias over (its condition would be pushed into the wrong fetch)',
                   file=PJ, line=gjs.lineno, witness=f'select * from {title.replace(" AS ", " ").replace("JOIN", "join")} on ... where a.x = 1')
    ctx.setcount('condition_scope_rows', n)
    ctx.floor('condition_scope_rows', 12)


def check_where_kept(ctx, fn, cmp_):
    """plan_join_tables interpreted end to end on joins of two and three plain tables (real check_query_conditions / check_use_limit / process_table; stand-ins for
    the planner, the step classes and the already-checked join sequence): the WHERE the caller's query carries afterwards is what plan() re-applies to the join
    result.  Under an outer join every top-level conjunct must still be there: a comparison moved into the fetch of the nullable side does not remove the rows the
    outer join then fills with NULLs - only the re-applied WHERE does."""
    pjt = fn.get('plan_join_tables')
    ctx.need(pjt is not None, 'PlanJoinTablesQuery.plan_join_tables not found')
    vocab = join_vocabulary(ctx)
    n = 0
    for kind, nt, side in itertools.product(vocab, (2, 3), ('both', 'right', 'left', 'none-pushable')):
        tis = [Obj('TableInfo', integration=f'int{i}', table=ident(f't{i}'), aliases=[(f't{i}',)], conditions=[], sub_select=None, predictor_info=None,
                   join_condition=None if i == 1 else binop('=', ident(f't1.id'), ident(f't{i}.id')), join_type=None if i == 1 else (kind if i == nt else 'INNER JOIN'),
                   index=i - 1) for i in range(1, nt + 1)]
        seq = [tis[0], tis[1], Obj('Join', join_type=tis[1].join_type, condition=tis[1].join_condition, left=None, right=None, implicit=False)]
        if nt == 3:
            seq += [tis[2], Obj('Join', join_type=kind, condition=tis[2].join_condition, left=None, right=None, implicit=False)]
        last = f't{nt}'
        conj = {'both': [cmp_('t1.a'), cmp_(f'{last}.b')], 'right': [cmp_(f'{last}.b')], 'left': [cmp_('t1.a')],
                'none-pushable': [binop('=', ident('t1.a'), ident(f'{last}.b'))]}[side]
        where = conj[0] if len(conj) == 1 else binop('and', conj[0], conj[1])
        want = [_show(c) for c in conj]
        q = select_ctor(None, targets=[Obj('Star')], from_table=Obj('Join'), where=where)
        stubs = base_stubs()
        stubs['self.planner.get_nested_selects_plan_fnc'] = lambda it, *a, **k: (lambda node, **kw: None)
        stubs['self.get_join_sequence'] = lambda it, node, *a, **k: list(seq)
        stubs['self.get_filters_from_join_conditions'] = lambda it, item: []
        stubs['self.planner.get_integration_select_step'] = lambda it, s_: Obj('FetchDataframeStep', query=s_, result=Obj('Result'))
        stubs['self.add_plan_step'] = lambda it, s_: s_
        stubs['self.close_partition'] = lambda it: None
        stubs['JoinStep'] = lambda it, **k: Obj('JoinStep', result=Obj('Result'), **k)
        self_ = new_pjt(planner=Obj('QueryPlanner', default_namespace='mindsdb'), tables_idx={(f't{i}',): tis[i - 1] for i in range(1, nt + 1)}, tables=list(tis), query_context={}, tables_fetch_step={}, step_stack=[],
                        partition=None)
        it = interp_for(stubs)
        label = f'{kind}:{nt} tables:where on {side}'
        try:
            it.call_function(pjt, [self_, q], {}, _env())
        except Raised as r:
            if r.exc_name in ('PlanningException', 'NotImplementedError'):
                continue
            raise AnalysisError(f'plan_join_tables raises {r.exc_name} on {label}')
        n += 1
        outer = any(w in kind.upper().split() for w in ('LEFT', 'RIGHT', 'FULL', 'OUTER'))
        got = [_show(c) for c in _conjuncts(q.where)]
        missing = [w for w in want if w not in got]
        if outer:
            ctx.ob('C08.where-kept', label, not missing,
                   f'{label}: after plan_join_tables the query that is re-applied to the join result has WHERE {got or "nothing"}; the conjunct(s) {missing} of the query are '
                   f'gone. Under a {kind} the rows the join fills with NULLs are rejected only by the WHERE applied after the join', file=PJ, line=pjt.lineno,
                   witness=f"select * from int1.t1 {kind.lower()} int2.t2 on t1.id = t2.id where t2.b = 1")
        else:
            ctx.ob('C08.where-kept', label, not missing or side != 'none-pushable',
                   f'{label}: the comparison between two tables {missing} is dropped from the WHERE re-applied after the join, and no fetch can evaluate it',
                   file=PJ, line=pjt.lineno)
    ctx.setcount('where_kept_rows', n)
    ctx.floor('where_kept_rows', 40)
    return n


def cte_roundtrip_rows(ctx):
    """plan_cte (the writer of cte_results) and get_integration_select_step (its reader), both interpreted: a CTE declared under some spelling and referenced
    under the same spelling is found - the step reads the CTE's result; whatever the letter case, the lookup never fails with an internal error.
    -> [(label, ok, message, line)]"""
    QP = 'mindsdb_sql/planner/query_planner.py'
    qp = class_named(ctx.src.tree(QP), 'QueryPlanner')
    gis, pc = function_named(qp, 'get_integration_select_step'), function_named(qp, 'plan_cte')
    if gis is None or pc is None:
        raise AnalysisError('get_integration_select_step / plan_cte not found')
    if not _CTX.get('src'):
        _CTX.update(tree=ctx.src.tree(PJ), src=ctx.src, ctx=ctx)
    out = []
    for declared, referenced in (('sales', 'sales'), ('Sales', 'Sales'), ('SALES', 'SALES'), ('mySales', 'mySales'), ('Sales', 'sales'), ('sales', 'SALES')):
        self_ = Obj('QueryPlanner', default_namespace='mindsdb', cte_results={}, plan=Obj('QueryPlan', steps=[]))
        stubs = base_stubs()
        stubs['self.plan_select'] = lambda it, q, *a, **k: Obj('Step', result='R-cte')

        def resolve(it, node):
            p = list(node.parts)
            db = 'mindsdb'
            if len(p) > 1 and p[0].lower() in ('int1', 'int2', 'mindsdb'):
                db = p.pop(0).lower()
            return (db, Obj('Identifier', parts=p, alias=None))
        stubs['self.resolve_database_table'] = resolve
        stubs['self.prepare_integration_select'] = lambda it, db, q: None
        stubs['SubSelectStep'] = lambda it, q, res, **k: Obj('SubSelectStep', query=q, dataframe=res, **k)
        stubs['FetchDataframeStep'] = lambda it, **k: Obj('FetchDataframeStep', **k)
        query = select_ctor(None, cte=[Obj('CommonTableExpression', columns=[], name=Obj('Identifier', parts=[declared], alias=None), query=select_ctor(None))])
        label = f'WITH {declared} AS (..) .. FROM {referenced}'
        try:
            interp_for(stubs, file=QP).call_function(pc, [self_, query], {}, _env())
            res = interp_for(stubs, file=QP).call_function(gis, [self_, select_ctor(None, from_table=ident(referenced), targets=[Obj('Star')])], {}, _env())
            got = ('cte', res.attrs.get('dataframe')) if res.kind == 'SubSelectStep' else ('table', res.attrs.get('integration'))
        except Raised as r:
            got = ('raises', r.exc_name)
        if declared == referenced:
            ok = got == ('cte', 'R-cte')
        else:
            ok = got[0] != 'raises' and (got[0] == 'table' or got == ('cte', 'R-cte'))
        out.append((label, ok, f'[{label}] the reference is planned as {got}: a CTE referenced as it was declared reads the CTE\'s result; a lookup that finds the name under one '
                               f'spelling and reads it under another fails with an internal error', gis.lineno))
    # WITH c(a, b) AS (SELECT x, y ...): the outputs of the CTE are named by the column list - the select that is planned for the CTE yields a, b (or the planner refuses)
    for shape in ('select', 'union'):
        self_ = Obj('QueryPlanner', default_namespace='mindsdb', cte_results={}, plan=Obj('QueryPlan', steps=[]))
        planned = []
        stubs = base_stubs()
        stubs['self.plan_select'] = lambda it, q, *a, **k: (planned.append(q), Obj('Step', result='R-cte'))[1]
        stubs['copy.deepcopy'] = lambda it, x: x.clone() if isinstance(x, Obj) else x
        stubs['Identifier'] = lambda it, *a, **k: Obj('Identifier', parts=list(k.get('parts') or (a[0] if a and isinstance(a[0], list) else [a[0]] if a else [])), alias=k.get('alias'))
        inner = select_ctor(None, targets=[ident('x'), ident('y')], from_table=ident('int1.t'))
        if shape == 'union':
            inner = Obj('Union', left=inner, right=select_ctor(None, targets=[ident('p'), ident('q')], from_table=ident('int2.u')), unique=True, alias=None, parentheses=False)
        query = select_ctor(None, cte=[Obj('CommonTableExpression', name=ident('c'), columns=[ident('a'), ident('b')], query=inner)])
        label = f'WITH c(a, b) AS ({shape} of x, y)'
        try:
            interp_for(stubs, file=QP, isa_extra={'Union': set(), 'Except': set(), 'Intersect': set()}).call_function(pc, [self_, query], {}, _env())
            q0 = planned[0] if planned else None
            while isinstance(q0, Obj) and q0.kind in ('Union', 'Except', 'Intersect'):
                q0 = q0.attrs.get('left')
            names = [(t.attrs['alias'].parts[-1] if isinstance(t.attrs.get('alias'), Obj) else t.attrs.get('parts', ['?'])[-1]) for t in (q0.attrs.get('targets') or [])] \
                if isinstance(q0, Obj) else None
            ok, got = names == ['a', 'b'], f'outputs named {names}'
        except Raised as r:
            ok, got = r.exc_name in ('PlanningException', 'NotImplementedError'), f'raises {r.exc_name}'
        out.append((label, ok, f'[{label}] the CTE is planned with {got}: the column list names the outputs of the CTE; without it `select a from c` reads a column the '
                               f'result does not have', pc.lineno))
    return out


def _all_nodes(n):
    out = [n]
    if isinstance(n, Obj):
        for v in n.attrs.get('args', []) or []:
            out += _all_nodes(v)
    return out


def _env():
    from ..interp import Env
    return Env()


def _conjuncts(w):
    if w is None:
        return []
    if isinstance(w, Obj) and w.kind == 'BinaryOperation' and str(w.op).lower() == 'and':
        return _conjuncts(w.args[0]) + _conjuncts(w.args[1])
    return [w]


def _same(a, b):
    if isinstance(a, Obj) and isinstance(b, Obj):
        return a.kind == b.kind and set(a.attrs) == set(b.attrs) and all(_same(a.attrs[k], b.attrs[k]) for k in a.attrs if k != '_table')
    if isinstance(a, list) and isinstance(b, list):
        return len(a) == len(b) and all(_same(x, y) for x, y in zip(a, b))
    return a == b


def _show(x):
    if x is None:
        return 'None'
    if isinstance(x, Obj):
        if x.kind == 'Identifier':
            return '.'.join(map(str, x.parts))
        if x.kind in ('Constant', 'NullConstant'):
            return repr(x.value)
        if x.kind in ('BinaryOperation', 'BetweenOperation', 'UnaryOperation', 'Function'):
            return f'{x.op}(' + ', '.join(_show(a) for a in x.args) + ')'
        return x.kind
    return str(x)
