"""Engine A (3/3) + Engine C: the ordered lexer rule list, regex languages and first-match simulation.

Patterns are *data read from the source*; compiling them with Python's `re` runs the regex engine
on that data, not repository code.
"""
import re
try:
    import re._parser as sre_parse          # py >= 3.11
    import re._constants as sre_c
except ImportError:                          # pragma: no cover
    import sre_parse
    import sre_constants as sre_c

from .source import AnalysisError

MAX_LANG = 64


def parse_pattern(pat, flags=0):
    try:
        return sre_parse.parse(pat, flags)
    except Exception as e:
        raise AnalysisError(f'pattern {pat!r} does not compile: {e}')


def _chars_of_in(items, limit=8):
    """Representative characters of a character class (enumerated when small)."""
    neg = False
    out = []
    for op, av in items:
        if op == sre_c.NEGATE:
            neg = True
        elif op == sre_c.LITERAL:
            out.append(chr(av))
        elif op == sre_c.RANGE:
            lo, hi = av
            if hi - lo < limit:
                out.extend(chr(c) for c in range(lo, hi + 1))
            else:
                out.extend([chr(lo), chr(hi)])
        elif op == sre_c.CATEGORY:
            out.append({sre_c.CATEGORY_SPACE: ' ', sre_c.CATEGORY_DIGIT: '0', sre_c.CATEGORY_WORD: 'a',
                        sre_c.CATEGORY_NOT_SPACE: 'x', sre_c.CATEGORY_NOT_DIGIT: 'x',
                        sre_c.CATEGORY_NOT_WORD: ' '}.get(av, 'x'))
    if neg:
        for c in 'xX0 _-':
            if c not in out:
                return [c]
        return ['é']
    return out


def language(pat, flags=0, limit=MAX_LANG):
    """(words, finite?) - the language of a pattern if finite and small, else a few representatives.
    \\b and other zero-width assertions are dropped; IGNORECASE is not expanded (words as written)."""
    tree = parse_pattern(pat, flags)
    finite = [True]

    def seq(items):
        res = ['']
        for op, av in items:
            alts = node(op, av)
            res = [a + b for a in res for b in alts][:limit * 4]
        return res

    def node(op, av):
        if op == sre_c.LITERAL:
            return [chr(av)]
        if op == sre_c.NOT_LITERAL:
            finite[0] = False
            return ['x' if chr(av) != 'x' else 'y']
        if op == sre_c.ANY:
            finite[0] = False
            return ['x']
        if op == sre_c.IN:
            cs = _chars_of_in(av)
            if any(o in (sre_c.NEGATE, sre_c.CATEGORY) for o, _ in av) or any(
                    o == sre_c.RANGE and a[1] - a[0] >= 8 for o, a in av):
                finite[0] = False
            return cs or ['x']
        if op == sre_c.AT:
            return ['']
        if op == sre_c.SUBPATTERN:
            return seq(av[3])
        if op == sre_c.BRANCH:
            out = []
            for alt in av[1]:
                out.extend(seq(alt))
            return out
        if op in (sre_c.MAX_REPEAT, sre_c.MIN_REPEAT):
            lo, hi, sub = av
            body = seq(sub)
            if hi == sre_c.MAXREPEAT or hi > 3:
                finite[0] = False
                reps = sorted({lo, max(lo, 1)})
            else:
                reps = list(range(lo, hi + 1))
            out = []
            for r in reps:
                cur = ['']
                for _ in range(r):
                    cur = [a + b for a in cur for b in body][:limit]
                out.extend(cur)
            return out
        if op in (sre_c.ASSERT, sre_c.ASSERT_NOT):
            return ['']
        if op == sre_c.GROUPREF:
            finite[0] = False
            return ['']
        raise AnalysisError(f'unmodelled regex node {op} in {pat!r}')

    words = []
    for w in seq(list(tree)):
        if w not in words:
            words.append(w)
    return words[:limit], finite[0]


def spelling(lex, tok):
    """Shortest representative spelling of a token (for witnesses), or None."""
    r = lex.rule(tok)
    if r is None:
        return None
    try:
        ws, _ = language(r.pattern, lex.reflags)
    except AnalysisError:
        return None
    ws = [w for w in ws if w]
    if not ws:
        return None
    return sorted(ws, key=len)[0]


class Master:
    """First-match simulation of the ordered master alternation sly builds (`(?P<NAME>pat)|...`)."""

    def __init__(self, lex):
        self.lex = lex
        parts = []
        for r in lex.rules:
            name = r.name
            if name.startswith('ignore_'):
                name = name[7:]
            parts.append(f'(?P<{name}>{r.pattern})')
        try:
            self.re = re.compile('|'.join(parts), lex.reflags)
        except re.error as e:
            raise AnalysisError(f'master regex of {lex.cls} does not compile: {e}')
        self.ignored = {r.name[7:] for r in lex.rules if r.name.startswith('ignore_')}
        self.ignore_chars = lex.ignore

    def tokenize(self, text):
        """[(type, text)] or raises ValueError at an illegal character (as sly would call error())."""
        out = []
        i = 0
        n = len(text)
        while i < n:
            if text[i] in self.ignore_chars:
                i += 1
                continue
            m = self.re.match(text, i)
            if not m or m.end() == i:
                raise ValueError(f'illegal character {text[i]!r} at {i}')
            i = m.end()
            if m.lastgroup in self.ignored:
                continue
            out.append((m.lastgroup, m.group()))
        return out

    def types(self, text):
        try:
            return [t for t, _ in self.tokenize(text)]
        except ValueError:
            return None


_masters = {}


def master_for(lex):
    m = lex.__dict__.get('_master')
    if m is None:
        m = lex.__dict__['_master'] = Master(lex)
    return m


# ---- ambiguity of unbounded loops (catastrophic backtracking) ------------------------------------------------------------------------

def _split_top_level(body):
    """split a group body on top-level `|`"""
    out, depth, cur, i, in_class = [], 0, '', 0, False
    while i < len(body):
        c = body[i]
        if c == '\\' and i + 1 < len(body):
            cur += body[i:i + 2]
            i += 2
            continue
        if in_class:
            if c == ']':
                in_class = False
            cur += c
        elif c == '[':
            in_class = True
            cur += c
            if i + 1 < len(body) and body[i + 1] == '^':
                cur += '^'
                i += 1
            if i + 1 < len(body) and body[i + 1] == ']':
                cur += ']'
                i += 1
        elif c == '(':
            depth += 1
            cur += c
        elif c == ')':
            depth -= 1
            cur += c
        elif c == '|' and depth == 0:
            out.append(cur)
            cur = ''
        else:
            cur += c
        i += 1
    out.append(cur)
    return out


def unbounded_groups(pattern):
    """(body text, quantifier) of every parenthesised group that is repeated without an upper bound"""
    res = []
    stack = []
    i, in_class = 0, False
    while i < len(pattern):
        c = pattern[i]
        if c == '\\':
            i += 2
            continue
        if in_class:
            if c == ']':
                in_class = False
        elif c == '[':
            in_class = True
            if i + 1 < len(pattern) and pattern[i + 1] == '^':
                i += 1
            if i + 1 < len(pattern) and pattern[i + 1] == ']':
                i += 1
        elif c == '(':
            stack.append(i)
        elif c == ')' and stack:
            st = stack.pop()
            q = pattern[i + 1:i + 2]
            m = re.match(r'\{(\d*),(\d*)\}', pattern[i + 1:])
            if q in ('*', '+') or (m and m.group(2) == ''):
                inner = pattern[st + 1:i]
                hdr = re.match(r'\?(?:[:>]|P<\w+>)', inner)
                if hdr:
                    inner = inner[hdr.end():]
                if not re.match(r'\?[=!<]', pattern[st + 1:st + 3]):
                    res.append((inner, q or m.group(0)))
        i += 1
    return res


def ambiguous_loop(body, flags=0, maxlen=5):
    """A repeated group is ambiguous when some string can be split into iterations in two different ways; on an input that then fails to match, a backtracking
    regex engine tries all splits (exponential time).  Exhaustive over the strings up to `maxlen` over the characters the pattern mentions.
    -> a witness (string, number of splits) or None"""
    alts = _split_top_level(body)
    if len(alts) == 1 and not re.search(r'(?<!\\)[*+]|\{\d+,\}', re.sub(r'\[(?:\\.|[^\]])*\]', 'C', body)):
        return None        # one alternative without inner repetition: a single way
    lits = set(re.findall(r'\\([nrt\\\'"`.\-;/*])', body)) | set(re.findall(r'(?<!\\)([\'"`;\-/@#])', body))
    alpha = []
    for ch in sorted(lits):
        alpha.append({'n': '\n', 'r': '\r', 't': '\t'}.get(ch, ch))
    for ch in ('a', ' ', '\n'):
        if ch not in alpha:
            alpha.append(ch)
    alpha = alpha[:6]
    import itertools
    comp = {}

    def ends(alt, s, pos):
        out = []
        for end in range(pos + 1, len(s) + 1):
            key = (alt, len(s) - end)
            rx = comp.get(key)
            if rx is None:
                try:
                    rx = comp[key] = re.compile('(?:%s)(?=[\\s\\S]{%d}\\Z)' % (alt, len(s) - end), flags)
                except re.error as e:
                    raise AnalysisError(f'cannot compile alternative {alt!r} of a repeated group: {e}')
            if rx.match(s, pos):
                out.append(end)
        return out
    for L in range(1, maxlen + 1):
        for t in itertools.product(alpha, repeat=L):
            s = ''.join(t)
            ways = [0] * (L + 1)
            ways[0] = 1
            for pos in range(L):
                if not ways[pos]:
                    continue
                for alt in alts:
                    for end in ends(alt, s, pos):
                        ways[end] += ways[pos]
            if ways[L] >= 2:
                return s, ways[L]
    return None
