"""Engine C: codec agreement between lexer patterns, decoders (grammar actions) and encoders (printers).

Everything here works on *data read from the source* (pattern strings, replace-chain literals); the rewrite
steps are re-applied by this module's own string code, never by calling repository functions.
"""
import ast
import re

from .source import AnalysisError, norm, dotted, const_str, walk_no_nested


class StringSyntax:
    """What a quoted-string token pattern admits: delimiter, backslash escapes, doubled delimiter."""

    def __init__(self, pattern, flags=0):
        self.pattern = pattern
        self.flags = flags
        try:
            self.re = re.compile(pattern, flags)
        except re.error as e:
            raise AnalysisError(f'string pattern {pattern!r} does not compile: {e}')
        self.delim = None
        for c in ("'", '"', '`'):
            if self.re.fullmatch(c + 'a' + c):
                self.delim = c
        if self.delim is None:
            raise AnalysisError(f'cannot determine the delimiter of string pattern {pattern!r}')
        c = self.delim
        self.escape = bool(self.re.fullmatch(c + '\\' + c + c))          # '\''  : backslash makes the quote content
        self.doubled = bool(self.re.fullmatch(c + c + c + c))            # ''''  : doubled delimiter is content
        self.backslash_literal = bool(self.re.fullmatch(c + 'a\\b' + c))

    def accepts(self, text):
        return bool(self.re.fullmatch(text))

    def reference_decode(self, text):
        """the value a literal denotes under this syntax (SQL semantics: backslash escapes when the pattern has them,
        doubled delimiter when the pattern has it; an unknown escape keeps the backslash)"""
        body = text[1:-1]
        out = []
        i = 0
        while i < len(body):
            ch = body[i]
            if self.escape and ch == '\\' and i + 1 < len(body):
                nx = body[i + 1]
                out.append(nx if nx in ('\\', "'", '"') else ch + nx)
                i += 2
                continue
            if self.doubled and ch == self.delim and i + 1 < len(body) and body[i + 1] == self.delim:
                out.append(ch)
                i += 2
                continue
            out.append(ch)
            i += 1
        return ''.join(out)


def chain_steps(e, var=None, env=None):
    """Rewrite steps of an expression of the form X.replace(a,b).replace(c,d).strip(q)[1:-1]...  -> (root expr, steps)."""
    steps = []
    while True:
        if isinstance(e, ast.Call) and isinstance(e.func, ast.Attribute) and e.func.attr in ('replace', 'strip', 'lstrip', 'rstrip'):
            args = [const_str(a) if not (env and isinstance(a, ast.Name) and isinstance(env.get(a.id), str)) else env[a.id]
                    for a in e.args]
            if any(a is None for a in args) and e.args:
                steps.append((e.func.attr + '?', norm(e)))
            else:
                steps.append((e.func.attr,) + tuple(args))
            e = e.func.value
            continue
        if isinstance(e, ast.Subscript) and isinstance(e.slice, ast.Slice):
            lo = e.slice.lower.value if isinstance(e.slice.lower, ast.Constant) else (None if e.slice.lower is None else '?')
            hi = None
            if isinstance(e.slice.upper, ast.UnaryOp) and isinstance(e.slice.upper.op, ast.USub) and isinstance(e.slice.upper.operand, ast.Constant):
                hi = -e.slice.upper.operand.value
            elif isinstance(e.slice.upper, ast.Constant):
                hi = e.slice.upper.value
            elif e.slice.upper is not None:
                hi = '?'
            steps.append(('slice', lo, hi))
            e = e.value
            continue
        if isinstance(e, ast.Call) and dotted(e.func) == 'str' and len(e.args) == 1:
            e = e.args[0]
            continue
        break
    return e, list(reversed(steps))


def apply_steps(steps, s):
    for st in steps:
        if st[0] == 'replace':
            s = s.replace(st[1], st[2])
        elif st[0] == 'strip':
            s = s.strip(st[1]) if len(st) > 1 else s.strip()
        elif st[0] == 'lstrip':
            s = s.lstrip(st[1]) if len(st) > 1 else s.lstrip()
        elif st[0] == 'rstrip':
            s = s.rstrip(st[1]) if len(st) > 1 else s.rstrip()
        elif st[0] == 'slice':
            s = s[st[1]:st[2]]
        else:
            raise AnalysisError(f'unmodelled rewrite step {st}')
    return s


def function_steps(fn, param, env=None):
    """A helper `def f(value, ...)` that rewrites its first parameter by successive `value = <chain>(value)` statements and
    possibly one `re.sub(PATTERN, callback, value)`: -> (steps, re_sub_pattern or None, unmodelled statements)"""
    steps = []
    resub = None
    other = []
    for st in fn.body:
        if isinstance(st, ast.Expr) and isinstance(st.value, ast.Constant):
            continue
        if isinstance(st, ast.FunctionDef):
            continue
        tgt_val = None
        if isinstance(st, ast.Assign) and len(st.targets) == 1 and isinstance(st.targets[0], ast.Name):
            tgt_val = (st.targets[0].id, st.value)
        elif isinstance(st, ast.Return) and st.value is not None:
            tgt_val = (param, st.value)
        if tgt_val is None:
            other.append(st)
            continue
        name, val = tgt_val
        if isinstance(val, ast.Call) and dotted(val.func) == 're.sub' and len(val.args) >= 3 and norm(val.args[2]) == param:
            resub = val
            continue
        root, ch = chain_steps(val, env=env)
        if isinstance(root, ast.Name) and root.id == param and name == param:
            steps.extend(ch)
        elif name != param and not any(isinstance(x, ast.Name) and x.id == param for x in ast.walk(val)):
            other.append(st)        # e.g. pattern = ... (constants): tolerated, inspected by the caller
        else:
            other.append(st)
    return steps, resub, other
